package main

import (
	"fmt"
	"path/filepath"
	"sort"
	"strings"

	"verifharness/lib"
)

func init() {
	parts["memfs"] = func(seed uint64, tier string, replay []string) *lib.Result {
		return corrMemfs(seed, tier, replay, "C01", fsGenOpts{symlinks: true, unclean: true, relative: true, aliasing: true}, 1)
	}
	parts["memfs-files"] = func(seed uint64, tier string, replay []string) *lib.Result {
		return corrMemfs(seed, tier, replay, "C02", fsGenOpts{files: true}, 2)
	}
	parts["memfs-perm"] = func(seed uint64, tier string, replay []string) *lib.Result {
		return corrMemfs(seed, tier, replay, "C03", fsGenOpts{users: true, symlinks: true}, 3)
	}
	parts["memfs-enum"] = func(seed uint64, tier string, replay []string) *lib.Result {
		return corrMemfs(seed, tier, replay, "C14", fsGenOpts{enum: true, symlinks: true, users: true}, 5)
	}
	parts["memfs-small"] = func(seed uint64, tier string, replay []string) *lib.Result {
		return corrMemfs(seed, tier, replay, "C02", fsGenOpts{files: true, users: true, small: true}, 6)
	}
	parts["memfs-small-views"] = func(seed uint64, tier string, replay []string) *lib.Result {
		return corrMemfs(seed, tier, replay, "C11", fsGenOpts{views: true, users: true, relative: true, small: true, smallOnly: "views"}, 7)
	}
	parts["memfs-views"] = func(seed uint64, tier string, replay []string) *lib.Result {
		return corrMemfs(seed, tier, replay, "C11", fsGenOpts{views: true, users: true, relative: true}, 4)
	}
}

func refusedRemoveAll(o string) bool { return o == "err EACCES" || o == "err EPERM" }

type wfExtra struct {
	hist lib.History
	dump string
}

// tempRnd extracts the random part chosen by impl for MkdirTemp/CreateTemp.
func tempRnd(dir, pat, name string) string {
	if dir == "" {
		dir = "/tmp"
	}
	prefix, suffix := pat, ""
	if i := strings.LastIndex(pat, "*"); i >= 0 {
		prefix, suffix = pat[:i], pat[i+1:]
	}
	var jp string
	if dir != "" && dir[len(dir)-1] == '/' {
		jp = dir + prefix
	} else {
		jp = dir + "/" + prefix
	}
	if len(name) >= len(jp)+len(suffix) && strings.HasPrefix(name, jp) && strings.HasSuffix(name, suffix) {
		return name[len(jp) : len(name)-len(suffix)]
	}
	return "0"
}

// runImpl executes a history on a fresh implementation; lines with a temp name placeholder are completed with
// the random part impl chose. Returns the completed lines and impl's outputs.
func runImpl(h lib.History) (lib.History, []string) {
	m := newFsImpl()
	out := make([]string, len(h))
	fixed := make(lib.History, len(h))
	for i, l := range h {
		f := strings.Fields(l)
		if len(f) >= 6 && (f[2] == "mkdirtemp" || f[2] == "createtemp") {
			f[5] = "?"
			res := m.call(strings.Join(f, " "))
			rnd := "0"
			if strings.HasPrefix(res, "ok b ") {
				rnd = tempRnd(lib.UnHex(f[3]), lib.UnHex(f[4]), lib.UnHex(strings.Fields(res)[2]))
			} else if strings.HasPrefix(res, "ok h ") {
				hid := atoiS(strings.Fields(res)[2])
				rnd = tempRnd(lib.UnHex(f[3]), lib.UnHex(f[4]), m.handles[hid].Name())
			}
			f[5] = lib.Hex(rnd)
			fixed[i] = strings.Join(f, " ")
			out[i] = res
			continue
		}
		fixed[i] = l
		out[i] = m.call(l)
	}
	return fixed, out
}

func fsKey(line, res string) (string, string) {
	f := strings.Fields(line)
	op := f[2]
	if op == "file" && len(f) > 4 {
		op = "file." + f[4]
	}
	cls := lib.OutcomeClass(res)
	if strings.HasPrefix(res, "errn") {
		cls = "errn:" + f[len(f)-1]
		rf := strings.Fields(res)
		cls = "errn:" + rf[len(rf)-1]
	}
	return op + "|" + cls, op + "|" + cls
}

func corrMemfs(seed uint64, tier string, replay []string, prop string, opts fsGenOpts, salt uint64) *lib.Result {
	res := &lib.Result{Property: prop,
		Rule: "template-driven random histories on a fresh MemFS (operands chosen from the implementation's current tree: existing dir/file/link, missing name, missing parent, below a file, root, related second operand, unclean and relative forms); after EVERY call the internal node graph of impl (verif hook) is compared with the model's heap; a case is one call; distinct non-trivial = distinct (call kind, outcome, operand-situation bucket)"}
	st := lib.NewStats()
	nh, nl := 600, 40
	if tier == "thorough" {
		nh, nl = 3000, 60
	}
	var hs []lib.History
	var impls [][]string
	var extraWf []wfExtra // graphs left by a refused RemoveAll: not comparable with the model (map order), still checked
	if replay != nil {
		fx, out := runImpl(replay)
		hs, impls = []lib.History{fx}, [][]string{out}
	} else if opts.small {
		res.Rule = "bounded-exhaustive scenarios on a fresh MemFS, impl ≟ model call by call and on the node graph at the end of every sequence, wfCheck on every dumped graph: " + smallRule() + "; a sequence is cut at a refused RemoveAll (what it released depends on map order; the graph it leaves is still checked); a case is one call; distinct non-trivial = distinct (scenario, call kind, outcome, position)"
		sh, _ := smallHistories(tier, opts.smallOnly)
		for _, h0 := range sh {
			m := newFsImpl()
			h := lib.History{}
			out := []string{}
			for _, l := range h0 {
				if m.dead {
					break
				}
				o := m.call(l)
				h = append(h, l)
				out = append(out, o)
				f := strings.Fields(l)
				if len(f) > 2 && f[2] == "removeall" && (o == "err EACCES" || o == "err EPERM") {
					extraWf = append(extraWf, wfExtra{append(lib.History{}, h...), m.call("fs 0 dump")})
					break
				}
			}
			hs = append(hs, h)
			impls = append(impls, out)
		}
	} else {
		r := lib.NewRng(seed*7919 + salt)
		for k := 0; k < nh; k++ {
			m := newFsImpl()
			g := &fsGen{r: r.Split(), impl: m, opts: opts, nviews: 1}
			h := lib.History{"fs new"}
			out := []string{"ok"}
			for i := 0; i < nl && !m.dead; i++ {
				l := g.next()
				f := strings.Fields(l)
				if _, ok := m.views[atoiS(f[1])]; !ok {
					continue
				}
				var o string
				if f[2] == "mkdirtemp" || f[2] == "createtemp" {
					fx, oo := lib.History{l}, []string{""}
					// run on the live instance
					o = m.call(l)
					rnd := "0"
					if strings.HasPrefix(o, "ok b ") {
						rnd = tempRnd(lib.UnHex(f[3]), lib.UnHex(f[4]), lib.UnHex(strings.Fields(o)[2]))
					} else if strings.HasPrefix(o, "ok h ") {
						rnd = tempRnd(lib.UnHex(f[3]), lib.UnHex(f[4]), m.handles[atoiS(strings.Fields(o)[2])].Name())
					}
					f[5] = lib.Hex(rnd)
					l = strings.Join(f, " ")
					_, _ = fx, oo
				} else {
					o = m.call(l)
				}
				if strings.HasPrefix(o, "ok h ") {
					g.open = append(g.open, atoiS(strings.Fields(o)[2]))
				}
				if strings.HasPrefix(o, "ok v ") {
					g.nviews = m.nextV
				}
				h = append(h, l)
				out = append(out, o)
				if f[2] == "removeall" && (o == "err EACCES" || o == "err EPERM") {
					// which entries a refused RemoveAll released depends on Go's map iteration order: end the history
					// (the graph it leaves is still checked against the tree invariant)
					extraWf = append(extraWf, wfExtra{append(lib.History{}, h...), m.call("fs 0 dump")})
					break
				}
				if !m.dead {
					h = append(h, "fs 0 dump")
					out = append(out, m.call("fs 0 dump"))
				}
			}
			hs = append(hs, h)
			impls = append(impls, out)
		}
	}
	model, err := lib.ModelExecAll(hs)
	if err != nil {
		res.Mismatches = append(res.Mismatches, lib.Mismatch{Kind: "unproved", Class: "corr-impl memfs", What: "driver failure " + err.Error()})
		return res
	}
	// a RemoveAll refused half-way: WHICH entry refuses first (EACCES: a directory that may not be written; EPERM: an entry
	// under restricted deletion) depends on Go's map iteration order when both kinds are present: either answer agrees
	for k, h := range hs {
		for i, l := range h {
			f := strings.Fields(l)
			if len(f) > 2 && f[2] == "removeall" && i < len(impls[k]) && i < len(model[k]) && refusedRemoveAll(impls[k][i]) && refusedRemoveAll(model[k][i]) {
				impls[k][i] = model[k][i]
			}
		}
	}
	seen := map[string]bool{}
	if opts.views {
		// C11's own oracles on the implementation (views.go), on every history
		for _, h := range hs {
			for _, mm := range viewsOracles(h, seen) {
				res.Mismatches = append(res.Mismatches, *mm)
			}
		}
		var vs []string
		for k, n := range viewStats {
			vs = append(vs, fmt.Sprintf("%s=%d", k, n))
		}
		sort.Strings(vs)
		res.Notes = append(res.Notes, fmt.Sprintf("C11 oracles (setter leaks, prefixed-parent twin) evaluated on %d histories; twin: %s", len(hs), strings.Join(vs, ", ")))
	}
	// C05's own oracle on the implementation: (a) a failed call leaves the node graph exactly as it was (RemoveAll and
	// handle operations excepted), (b) the dumped graph satisfies the Lean predicate wfCheck after every call.
	var wfLines []string
	var wfWhere [][2]int
	for k, h := range hs {
		prev := ""
		for i, l := range h {
			if !strings.HasSuffix(l, " dump") {
				continue
			}
			cur := impls[k][i]
			if i > 0 && prev != "" && strings.HasPrefix(impls[k][i-1], "err ") {
				pf := strings.Fields(h[i-1])
				if pf[2] != "removeall" && pf[2] != "file" && cur != prev && !seen["failed-changed|"+pf[2]] {
					seen["failed-changed|"+pf[2]] = true
					res.Mismatches = append(res.Mismatches, lib.Mismatch{Kind: "violation", Class: "c05.failed-call-changed-tree." + pf[2],
						What:    fmt.Sprintf("the call %q failed with %q but changed the tree", h[i-1], impls[k][i-1]),
						History: append(lib.History{}, h[:i+1]...), Impl: []string{prev, cur}, Index: i})
				}
			}
			prev = cur
			if strings.HasPrefix(cur, "dump ") {
				wfLines = append(wfLines, "fs wfcheck "+cur)
				wfWhere = append(wfWhere, [2]int{k, i})
			}
		}
	}
	for _, x := range extraWf {
		if strings.HasPrefix(x.dump, "dump ") {
			hs = append(hs, append(x.hist, "fs 0 dump"))
			impls = append(impls, nil)
			wfLines = append(wfLines, "fs wfcheck "+x.dump)
			wfWhere = append(wfWhere, [2]int{len(hs) - 1, len(x.hist)})
		}
	}
	nReal := len(hs) - len(extraWf)
	if len(wfLines) > 0 {
		wfOut, werr := lib.RunDriver(wfLines)
		if werr == nil {
			for j, o := range wfOut {
				if o != "ok true" && !seen["wf"] {
					seen["wf"] = true
					k, i := wfWhere[j][0], wfWhere[j][1]
					res.Mismatches = append(res.Mismatches, lib.Mismatch{Kind: "violation", Class: "c05.impl-graph-not-wellformed",
						What:    fmt.Sprintf("after %q the implementation's node graph violates the tree invariant (wfCheck = %s)", hs[k][i-1], o),
						History: append(lib.History{}, hs[k][:i+1]...), Impl: []string{strings.TrimPrefix(wfLines[j], "fs wfcheck ")}, Index: i})
				}
			}
		}
		res.Notes = append(res.Notes, fmt.Sprintf("wfCheck evaluated on %d dumped implementation graphs", len(wfLines)))
	}
	shrinks := 0
	for k, h := range hs {
		if k >= nReal {
			break
		}
		for i, l := range h {
			if i == 0 || strings.HasSuffix(l, " dump") {
				continue
			}
			kind, key := fsKey(l, impls[k][i])
			st.Count(kind, key+fmt.Sprintf("|%d", i/16))
		}
		if k < 2 {
			n := min(len(h), 9)
			st.Sample(map[string]any{"history": h[:n], "impl": impls[k][:n]})
		}
		d := lib.FirstDiff(impls[k], model[k])
		if d < 0 {
			continue
		}
		if shrinks++; shrinks > 60 {
			break // enough representatives (each minimisation costs many driver runs)
		}
		cut := h[:d+1]
		small := lib.Shrink(cut, 1, func(c lib.History) bool {
			fx, io := runImpl(c)
			return lib.FirstDiff(io, lib.ModelExec(fx)) >= 0
		})
		fx, si := runImpl(small)
		sm := lib.ModelExec(fx)
		di := lib.FirstDiff(si, sm)
		if di < 0 {
			continue
		}
		last := fx[di]
		lf := strings.Fields(last)
		sig := lf[2] + "|" + lib.OutcomeClass(si[di]) + "|" + lib.OutcomeClass(sm[di])
		if lf[2] == "dump" && di > 0 {
			pf := strings.Fields(fx[di-1])
			sig = "dump-after-" + pf[2] + "|" + lib.OutcomeClass(si[di-1])
		}
		if seen[sig] {
			continue
		}
		seen[sig] = true
		mm := lib.Mismatch{History: fx, Impl: si, Model: sm, Index: di, Class: "corr-impl memfs " + sig}
		mm.Kind, mm.What = classifyFs(prop, fx, si, sm, di)
		if mm.Kind == "unproved" {
			// search: does the implementation break one of the property's own oracles on this (shrunk) history?
			if extra := searchOracles(fx, si, opts); extra != nil {
				mm.Kind = "explained"
				res.Mismatches = append(res.Mismatches, *extra)
			}
		}
		res.Mismatches = append(res.Mismatches, mm)
		if len(res.Mismatches) >= 12 {
			break
		}
	}
	st.Fill(res)
	return res
}

// classifyFs searches for a violation of the property itself at a disagreement between impl and model.
func classifyFs(prop string, h lib.History, impl, model []string, d int) (string, string) {
	if impl[d] == "panic" || impl[d] == "hang" {
		return "violation", fmt.Sprintf("call %q %ss on the implementation (C07: every call returns)", h[d], impl[d])
	}
	return "unproved", fmt.Sprintf("implementation and Lean model differ at %q: impl %q model %q", h[d], impl[d], model[d])
}

// searchOracles evaluates the properties' own oracles on a history on which impl and model disagree:
// (1) the tree invariant on impl's dumped graphs (Lean wfCheck), (2) a failed call must leave the graph unchanged,
// (3) the Linux kernel (OsFS in a chroot) on the same history. Returns a mismatch describing the failing input.
func searchOracles(h lib.History, impl []string, opts fsGenOpts) *lib.Mismatch {
	var wfLines []string
	var at []int
	prev := ""
	for i, l := range h {
		if !strings.HasSuffix(l, " dump") || !strings.HasPrefix(impl[i], "dump ") {
			continue
		}
		if i > 0 && prev != "" && strings.HasPrefix(impl[i-1], "err ") && impl[i] != prev {
			pf := strings.Fields(h[i-1])
			if pf[2] != "removeall" && pf[2] != "file" {
				return &lib.Mismatch{Kind: "violation", Class: "c05.failed-call-changed-tree." + pf[2], What: fmt.Sprintf("the call %q failed with %q but changed the tree", h[i-1], impl[i-1]),
					History: h[:i+1], Impl: []string{prev, impl[i]}, Index: i}
			}
		}
		prev = impl[i]
		wfLines = append(wfLines, "fs wfcheck "+impl[i])
		at = append(at, i)
	}
	if out, err := lib.RunDriver(wfLines); err == nil {
		for j, o := range out {
			if o != "ok true" {
				i := at[j]
				return &lib.Mismatch{Kind: "violation", Class: "c05.impl-graph-not-wellformed", What: fmt.Sprintf("after %q the implementation's node graph violates the tree invariant (link counts / tree shape): wfCheck = %s", h[i-1], o),
					History: h[:i+1], Impl: []string{impl[i]}, Index: i}
			}
		}
	}
	// conservation: a successful Rename moves entries, it never loses any (at most the replaced destination goes)
	prevN := -1
	for i, l := range h {
		if strings.HasSuffix(l, " dump") && strings.HasPrefix(impl[i], "dump ") {
			n := len(strings.Fields(impl[i]))
			if i > 0 && prevN >= 0 && impl[i-1] == "ok" && strings.Fields(h[i-1])[2] == "rename" && n < prevN-1 {
				return &lib.Mismatch{Kind: "violation", Class: "c05.rename-lost-entries", What: fmt.Sprintf("%q succeeded and %d nodes are no longer reachable from the root", h[i-1], prevN-n),
					History: h[:i+1], Impl: []string{impl[i]}, Index: i}
			}
			prevN = n
		}
	}
	if opts.views {
		if ms := viewsOracles(h, map[string]bool{}); len(ms) > 0 {
			return ms[0]
		}
	}
	// the kernel oracle: clean absolute paths, one view; the root is never the operand of remove / rename
	admissible := func(h lib.History) bool {
		for _, l := range h {
			f := strings.Fields(l)
			if len(f) < 3 || f[1] == "new" || f[2] == "dump" {
				continue
			}
			if f[1] != "0" || f[2] == "sub" {
				return false
			}
			for _, x := range f[3:] {
				if strings.HasPrefix(x, "2f") || strings.HasPrefix(x, "2e") || x == "-" {
					pth := lib.UnHex(x)
					if f[2] == "symlink" && x == f[3] {
						continue
					}
					if pth == "" || pth[0] != '/' || filepath.Clean(pth) != pth {
						return false
					}
					if pth == "/" && (f[2] == "remove" || f[2] == "removeall" || f[2] == "rename" || f[2] == "link" || f[2] == "mkdirtemp" || f[2] == "createtemp") {
						return false
					}
				}
			}
		}
		return true
	}
	try := func(h lib.History) *lib.Mismatch {
		if !admissible(h) {
			return nil
		}
		l, a, b := runBoth(h)
		if d := lib.FirstDiff(a, b); d >= 0 {
			cls := kernelClass(l, a, b, d)
			if ledgerKnown(cls) {
				return nil // a recorded divergence explains nothing new
			}
			return &lib.Mismatch{Kind: "known", Class: cls, What: fmt.Sprintf("MemFS and the Linux kernel disagree at %q: MemFS %q, kernel %q", l[d], trunc(a[d]), trunc(b[d])),
				History: l, Impl: a, Expected: b, Index: d}
		}
		return nil
	}
	if m := try(h); m != nil {
		return m
	}
	// neighbourhood: the same state, the operands of the last call, other calls (a defect in the path walk or in a
	// permission check shows through read-only calls even when the call that exposed it has no kernel counterpart)
	last := -1
	for i := len(h) - 1; i > 0; i-- {
		if !strings.HasSuffix(h[i], " dump") {
			last = i
			break
		}
	}
	if last > 0 {
		f := strings.Fields(h[last])
		var ops []string
		for _, x := range f[3:] {
			if strings.HasPrefix(x, "2f") {
				ops = append(ops, x)
			}
		}
		pre := strings.Join(f[:2], " ")
		for _, x := range ops {
			for _, v := range []string{"stat " + x, "lstat " + x, "readdir " + x, "openfile " + x + " 0 0", "readfile " + x, "chmod " + x + " 493", "readlink " + x, "truncate " + x + " 0", "mkdir " + x + " 493", "chdir " + x} {
				hv := append(append(lib.History{}, h[:last]...), pre+" "+v)
				if m := try(hv); m != nil {
					m.What = "found next to the model/implementation disagreement at " + h[last] + ": " + m.What
					return m
				}
			}
		}
	}
	return nil
}
