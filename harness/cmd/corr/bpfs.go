package main

import (
	"fmt"
	"strings"

	"github.com/avfs/avfs"
	"github.com/avfs/avfs/vfs/basepathfs"
	"github.com/avfs/avfs/vfs/memfs"

	"verifharness/lib"
)

func init() { parts["bpfs"] = corrBpfs }

// outside: the part of a snapshot that lies outside the base directory /qb.
func outside(snap string) string {
	var keep []string
	for _, e := range strings.Fields(snap) {
		if strings.HasPrefix(e, "2f7162:") || strings.HasPrefix(e, "2f71622f") {
			continue
		}
		keep = append(keep, e)
	}
	return strings.Join(keep, " ")
}

// inside: the entries below /qb with the prefix removed (the virtual namespace).
func inside(snap string) string {
	var keep []string
	for _, e := range strings.Fields(snap) {
		switch {
		case strings.HasPrefix(e, "2f7162:"):
			keep = append(keep, "2f:"+e[7:])
		case strings.HasPrefix(e, "2f71622f"):
			keep = append(keep, e[6:])
		}
	}
	return strings.Join(keep, " ")
}

func corrBpfs(seed uint64, tier string, replay []string) *lib.Result {
	res := &lib.Result{Property: "C10",
		Rule: "random histories through BasePathFS(MemFS, B) with B = /qb given under the spellings /qb, /qb/, //qb, /qb/., /other/../qb, /qb// in turn, in lockstep with a standalone MemFS holding the same content at its root: operands from the standalone tree plus escape attempts ('/..', '../..', relative paths before and after Chdir, the base's own prefix, unclean forms); after every call: outcomes equal, the virtual tree equals the standalone tree, everything OUTSIDE /qb in the base is unchanged, no error or returned path reveals /qb; operations on the root itself included (for a failing Rename that involves the root only the failure is compared); Sub with escaping / relative directories followed by calls through the returned view; then the bounded-exhaustive scenarios namespace, file-admin and dir-handle of small.go (every sequence of ≤ 2 / 2 / 4 calls; thorough one more) in the same lockstep, every fifth followed by WalkDir / Glob / Exists on the root, on missing and escaping roots (results and the paths inside callback errors must be virtual); a case is one call; distinct non-trivial = distinct (call kind, outcome, path form)"}
	st := lib.NewStats()
	nh, nl := 150, 40
	if tier == "thorough" {
		nh, nl = 2500, 60
	}
	r := lib.NewRng(seed*6151 + 3)
	seen := map[string]bool{}
	// after the random histories: the bounded-exhaustive scenarios of small.go (one level shallower), in the same lockstep
	var scripts []lib.History
	if replay == nil {
		for _, scn := range []string{"namespace", "file-admin", "dir-handle"} {
			sh, _ := smallHistoriesDepth(tier, scn, -1)
			scripts = append(scripts, sh...)
		}
	}
	// enumeration helpers through the wrapper (visited paths, results and the paths inside the errors handed to the callback
	// and returned must all be virtual): on the root, on a missing root (absolute, relative, escaping), on a file
	epilogue := lib.History{"fs 0 walk " + lib.Hex("/") + " -", "fs 0 walk " + lib.Hex("/missing") + " -", "fs 0 walk " + lib.Hex("missing") + " c",
		"fs 0 walk " + lib.Hex("/../../secret") + " -", "fs 0 glob " + lib.Hex("/*"), "fs 0 glob " + lib.Hex("/*/*"), "fs 0 glob " + lib.Hex("/../*"),
		"fs 0 walk " + lib.Hex("/tmp") + " c,d", "fs 0 exists " + lib.Hex("/../secret"), "fs 0 direxists " + lib.Hex("/..")}
	if replay == nil {
		for i := range scripts {
			if i%5 == 0 {
				scripts[i] = append(append(lib.History{}, scripts[i][:len(scripts[i])-1]...), append(epilogue, scripts[i][len(scripts[i])-1])...)
			}
		}
		scripts = append(scripts, append(append(lib.History{"fs new"}, epilogue...), "fs 0 dump"))
	}
	for k := 0; k < nh+len(scripts); k++ {
		var script lib.History
		if k >= nh {
			script = scripts[k-nh][1:] // without "fs new"
			script = script[:len(script)-1]
		}
		_ = avfs.SetUMask(0)
		base := memfs.New()
		_ = base.WriteFile("/secret", []byte("TOP"), 0o600)
		_ = base.Mkdir("/qb", 0o755)
		_ = base.MkdirAll("/qb/home", 0o700)
		_ = base.MkdirAll("/qb/root", 0o700)
		_ = base.MkdirAll("/qb/tmp", 0o777)
		_ = base.MkdirAll("/other/x", 0o755)
		_ = avfs.SetUMask(0o022)
		_ = base.SetUMask(0o022)
		twin := memfs.New()
		// the base directory is handed over under several spellings of the same path
		spelling := baseSpellings[k%len(baseSpellings)]
		w := newFsOn(basepathfs.New(base, spelling))
		w.leak = "/qb"
		tw := newFsOn(twin)
		bs := newFsOn(base)
		g := &fsGen{r: r.Split(), impl: tw, opts: fsGenOpts{unclean: true, relative: true, files: true, aliasing: true}, nviews: 1}
		escapes := []string{"/../secret", "../secret", "../../secret", "/qb/../secret", "..", "/..", "/../other/x", "../other", "/b", "/qb/tmp", "./../secret", "/tmp/../../secret", "secret", "tmp"}
		subDirs := []string{"/../other", "../other", "/tmp/../../other", "/..", "..", "/tmp", "tmp", "/home/..", ".", "/../secret", "/tmp/..", "../../other/x", "/qb", "/"}
		var queue []string
		var hist lib.History
		out0 := outside(bs.call("fs 0 snap"))
		for i := 0; i < nl || (script != nil && i < len(script)); i++ {
			var l string
			if script != nil {
				if i >= len(script) {
					break
				}
				l = script[i]
			} else if len(queue) > 0 && replay == nil {
				l, queue = queue[0], queue[1:]
			} else {
				l = g.next()
			}
			if script == nil && replay == nil && len(queue) == 0 && r.Bool(6) {
				// Sub with an escaping / relative / ordinary directory, then calls through the view it returns
				l = "fs 0 sub " + lib.Hex(lib.Pick(r, subDirs))
				v := w.nextV
				for _, q := range []string{"readfile " + lib.Hex("/secret"), "readdir 2f", "writefile " + lib.Hex("/evil") + " 58 420", "readfile " + lib.Hex("/x/../../secret"), "stat " + lib.Hex("/other")} {
					queue = append(queue, fmt.Sprintf("fs %d %s", v, q))
				}
			}
			if replay != nil {
				if i >= len(replay) {
					break
				}
				l = replay[i]
			} else if script == nil && r.Bool(15) {
				// escape attempt with a random path-taking call
				e := lib.Hex(lib.Pick(r, escapes))
				l = lib.Pick(r, []string{"fs 0 readfile " + e, "fs 0 stat " + e, "fs 0 readdir " + e, "fs 0 remove " + e, "fs 0 writefile " + e + " 58 420",
					"fs 0 mkdir " + e + " 493", "fs 0 chdir " + e, "fs 0 rename " + e + " " + lib.Hex("/tmp/z"), "fs 0 rename " + lib.Hex("/tmp") + " " + e, "fs 0 truncate " + e + " 0", "fs 0 removeall " + e, "fs 0 chmod " + e + " 511"})
			}
			f := strings.Fields(l)
			if len(f) > 3 && f[3] == "-" && f[2] != "file" {
				continue // the empty string is not a path
			}
			w.leaked = ""
			if _, ok := w.views[atoiS(f[1])]; !ok {
				continue
			}
			if _, ok := tw.views[atoiS(f[1])]; !ok {
				continue
			}
			if (f[2] == "sub" && f[1] != "0") || f[2] == "symlink" || f[2] == "readlink" || f[2] == "evalsymlinks" || f[2] == "link" && false ||
				f[2] == "mkdirtemp" || f[2] == "createtemp" || f[2] == "setuser" || f[2] == "lchown" {
				continue // BasePathFS refuses symbolic links; temp names are random; users are the base's
			}
			hist = append(hist, l)
			rw, rt := w.call(l), tw.call(l)
			if f[2] == "rename" && strings.HasPrefix(rw, "err ") && strings.HasPrefix(rt, "err ") {
				// a rename that involves the root fails on both sides; which of two applicable errors is reported first
				// (the root cannot be moved / the destination exists / the source is missing) is not compared
				for _, x := range f[3:] {
					if c := twin.Clean(lib.UnHex(x)); c == "/" || c == "." || c == ".." || strings.HasPrefix(c, "/..") || strings.HasPrefix(c, "../") {
						rw = rt
					}
				}
			}
			if f[2] == "stat" || f[2] == "lstat" || (f[2] == "file" && len(f) > 4 && f[4] == "stat") {
				rw, rt = normRes(rw), normRes(rt) // the name of the root entry differs by construction
			}
			if strings.HasPrefix(rt, "ok h ") {
				g.open = append(g.open, atoiS(strings.Fields(rt)[2]))
			}
			form := "plain"
			if len(f) > 3 && f[2] != "file" && f[2] != "setumask" {
				p := lib.UnHex(f[3])
				switch {
				case strings.Contains(p, ".."):
					form = "dotdot"
				case !strings.HasPrefix(p, "/"):
					form = "relative"
				}
			}
			st.Count(f[2]+"|"+lib.OutcomeClass(rw)+"|"+form, f[2]+"|"+lib.OutcomeClass(rw)+"|"+form)
			if k < 1 && i < 6 {
				st.Sample(map[string]string{"line": l, "basepathfs": rw, "standalone": rt})
			}
			bad := ""
			snapB := bs.call("fs 0 snap")
			switch {
			case rw == "panic" || rw == "hang":
				bad = "the call " + rw + "s"
			case outside(snapB) != out0:
				bad = "something OUTSIDE the base directory changed"
			case strings.Contains(rw, "544f50"):
				bad = "content from outside the base directory was read"
			case w.leaked != "" && !strings.Contains(l, " 2f7162"):
				bad = "an error reveals the base path: " + w.leaked
			case normMtime(rw, map[int64]bool{}) != normMtime(rt, map[int64]bool{}):
				bad = fmt.Sprintf("outcome %q differs from the standalone file system's %q", rw, rt)
			case normMtime(inside(strings.TrimPrefix(snapB, "snap ")), map[int64]bool{}) != normMtime(strings.TrimPrefix(tw.call("fs 0 snap"), "snap "), map[int64]bool{}):
				bad = "the tree below the base directory differs from the standalone file system's tree"
			}
			if bad != "" {
				sig := f[2] + "|" + form + "|" + bad[:min(18, len(bad))]
				if !seen[sig] {
					seen[sig] = true
					res.Mismatches = append(res.Mismatches, lib.Mismatch{Kind: "violation", Class: "bpfs." + f[2] + "." + form, What: "through BasePathFS(MemFS, " + spelling + "): " + bad + " at " + l + " -> " + rw,
						History: append(lib.History{}, hist...), Impl: []string{rw}, Expected: []string{rt}})
				}
				break
			}
			if w.dead || tw.dead {
				break
			}
		}
		if replay != nil && (k+1 >= len(baseSpellings) || len(res.Mismatches) > 0) {
			break // a replay is run under every spelling of the base path
		}
	}
	st.Fill(res)
	return res
}

var baseSpellings = []string{"/qb", "/qb/", "//qb", "/qb/.", "/other/../qb", "/qb//"}
