package main

import (
	"fmt"
	"io/fs"
	"regexp"
	"strings"

	"verifharness/lib"
)

func init() {
	parts["kernel"] = func(seed uint64, tier string, replay []string) *lib.Result {
		return corrKernel(seed, tier, replay, "C01", fsGenOpts{symlinks: true, kernel: true}, 11)
	}
	parts["kernel-files"] = func(seed uint64, tier string, replay []string) *lib.Result {
		return corrKernel(seed, tier, replay, "C02", fsGenOpts{files: true, kernel: true}, 12)
	}
	parts["kernel-enum"] = func(seed uint64, tier string, replay []string) *lib.Result {
		return corrKernel(seed, tier, replay, "C14", fsGenOpts{enum: true, symlinks: true, kernel: true, users: true}, 14)
	}
	parts["kernel-perm"] = func(seed uint64, tier string, replay []string) *lib.Result {
		return corrKernel(seed, tier, replay, "C03", fsGenOpts{users: true, symlinks: true, kernel: true}, 15)
	}
	parts["kernel-small"] = func(seed uint64, tier string, replay []string) *lib.Result {
		return corrKernel(seed, tier, replay, "C01", fsGenOpts{files: true, users: true, symlinks: true, kernel: true, small: true}, 16)
	}
	parts["kernel-links"] = func(seed uint64, tier string, replay []string) *lib.Result {
		return corrKernel(seed, tier, replay, "C04", fsGenOpts{symlinks: true, kernel: true}, 13)
	}
}

// normRes removes from a result line what the property does not compare between an emulated file system and Linux:
// entry names of Stat results, sizes and link counts of directories and symbolic links.
var mtimeAny = regexp.MustCompile(`:m(-|-?\d+)`)

func normRes(s string) string {
	s = mtimeAny.ReplaceAllString(s, ":m_") // modification times are not among the attributes C01 compares
	if s == "err fileclosing" {
		s = "err closed" // both are the closed-file error kind
	}
	f := strings.Fields(s)
	if len(f) >= 3 && f[0] == "ok" && (f[1] == "i" || f[1] == "l") {
		var out []string
		for _, e := range strings.Split(f[2], ";") {
			p := strings.Split(e, ":")
			if len(p) == 2 && p[1] == "?" {
				p = []string{p[0], "?"}
			}
			if len(p) >= 8 {
				if f[1] == "i" {
					p[0] = "_"
				}
				if p[1] != "1" {
					p[5], p[6] = "_", "_"
				}
			}
			out = append(out, strings.Join(p, ":"))
		}
		return f[0] + " " + f[1] + " " + strings.Join(out, ";")
	}
	return s
}

// runBoth executes a history on a fresh implementation and a fresh kernel oracle in lockstep with a snapshot
// after every call; it stops at the first disagreement. Returns lines, impl results, oracle results.
func runBoth(h lib.History) (lib.History, []string, []string) { return runBothWith(kMemfs, h) }

// kImpl names the emulated side of a comparison with the kernel: its constructor, the snapshot line issued after
// every call, how it is called in messages and the prefix of the divergence classes.
type kImpl struct {
	mk    func() *fsImpl
	snap  string
	name  string
	class string
}

var kMemfs = kImpl{mk: newFsImpl, snap: "fs 0 snap", name: "MemFS", class: "kernel."}

// toOracle rewrites a protocol line of another domain for the kernel oracle, which serves the domain `fs`.
func toOracle(l string) string {
	if i := strings.Index(l, " "); i > 0 && l[:i] != "fs" {
		return "fs" + l[i:]
	}
	return l
}

// runBothWith: runBoth for the implementation k.
func runBothWith(k kImpl, h lib.History) (lib.History, []string, []string) {
	m := k.mk()
	o := newFsOracle()
	defer o.cleanup()
	var lines lib.History
	var ri, ro []string
	for _, l := range h {
		f := strings.Fields(l)
		if len(f) >= 3 && (f[2] == "dump" || f[2] == "snap" || f[2] == "snapo") {
			continue
		}
		if len(f) >= 6 && (f[2] == "mkdirtemp" || f[2] == "createtemp") {
			f[5] = "?"
			l = strings.Join(f, " ")
		}
		a, b := normRes(m.call(l)), normRes(o.call(toOracle(l)))
		if len(f) >= 3 && (f[2] == "mkdirtemp") && strings.HasPrefix(a, "ok b") && strings.HasPrefix(b, "ok b") {
			a, b = "ok b ~", "ok b ~" // random names differ by construction
		}
		if agree(l, a, b) {
			b = a
		}
		lines, ri, ro = append(lines, l), append(ri, a), append(ro, b)
		if a != b || m.dead {
			break
		}
		if len(f) >= 3 && f[1] != "new" {
			if (f[2] == "mkdirtemp" || f[2] == "createtemp") && strings.HasPrefix(a, "ok") {
				break // random names differ by construction: the history ends here
			}
			sa, sb := normRes(m.call(k.snap)), normRes(o.call(toOracle(k.snap)))
			lines, ri, ro = append(lines, k.snap), append(ri, sa), append(ro, sb)
			if sa != sb {
				break
			}
		}
	}
	return lines, ri, ro
}

// agree: equal results, or both fail on a closed handle (C02 asks for a closed-file error on every call on a
// closed handle; os.File itself reports a negative offset first in ReadAt/WriteAt).
func agree(line, a, b string) bool {
	if a == b {
		return true
	}
	f := strings.Fields(line)
	if len(f) > 2 && f[2] == "removeall" && refusedRemoveAll(a) && refusedRemoveAll(b) {
		return true // which entry refuses first depends on the order of the traversal
	}
	return len(f) > 4 && f[2] == "file" && a == "err closed" && strings.HasPrefix(b, "err ")
}

func corrKernel(seed uint64, tier string, replay []string, prop string, opts fsGenOpts, salt uint64) *lib.Result {
	return corrKernelWith(kMemfs, seed, tier, replay, prop, opts, salt)
}

// corrKernelWith: corrKernel for the implementation k.
func corrKernelWith(k kImpl, seed uint64, tier string, replay []string, prop string, opts fsGenOpts, salt uint64) *lib.Result {
	res := &lib.Result{Property: prop,
		Rule: "the same template-driven histories issued to " + k.name + " and, through OsFS, to the Linux kernel on a fresh tmpfs directory (paths re-rooted); after every call the outcome (ok / errno, returned attributes) and the whole tree (Lstat, ReadDir, ReadFile, Readlink of every entry) are compared; a history ends at its first disagreement; a case is one call; distinct non-trivial = distinct (call kind, outcome, bucket)"}
	st := lib.NewStats()
	nh, nl := 120, 40
	if tier == "thorough" {
		nh, nl = 2500, 60
	}
	type dis struct {
		h      lib.History
		ri, ro []string
	}
	var found []dis
	if replay != nil {
		l, a, b := runBothWith(k, replay)
		if lib.FirstDiff(a, b) >= 0 {
			found = append(found, dis{l, a, b})
		}
		st.Count("replay", "replay")
		st.Count("replay", "replay2")
	} else if opts.small {
		res.Rule = "the bounded-exhaustive scenarios of small.go (one level shallower than the quick tier of memfs-small: " + smallRule() + ") issued to " + k.name + " and, through OsFS, to the Linux kernel on a fresh tmpfs directory (users through setfsuid); outcomes and the whole tree after every call; a case is one call; distinct non-trivial = distinct (scenario, call kind, outcome)"
		delta := -1
		if tier == "thorough" {
			delta = -2 // every history needs an oracle process of its own: the depth of the quick tier of memfs-small, minus one
		}
		sh, names := smallHistoriesDepth(tier, "", delta)
		seenSig := map[string]bool{}
		for i, h0 := range sh {
			if names[i] == "removeall-foreign-subdir" && false {
				continue
			}
			l, a, b := runBothWith(k, h0)
			for j := range l {
				if j < len(a) && !strings.HasSuffix(l[j], " snap") && len(strings.Fields(l[j])) > 2 {
					kind, key := fsKey(l[j], a[j])
					st.Count(names[i]+"|"+kind, names[i]+"|"+key)
				}
			}
			if d := lib.FirstDiff(a, b); d >= 0 {
				// one representative per (scenario, call, outcomes): the classes are computed after shrinking
				sig := names[i] + "|" + l[d] + "|" + a[d] + "|" + b[d]
				if strings.HasSuffix(l[d], " snap") && d > 0 {
					sig = names[i] + "|snap-after|" + l[d-1]
				}
				if !seenSig[sig] {
					seenSig[sig] = true
					found = append(found, dis{l, a, b})
				}
			}
		}
	} else {
		r := lib.NewRng(seed*104729 + salt)
		for hi := 0; hi < nh; hi++ {
			m := k.mk()
			o := newFsOracle()
			g := &fsGen{r: r.Split(), impl: m, opts: opts, nviews: 1}
			h := lib.History{m.prefix() + " new"}
			var ri, ro []string
			ri, ro = append(ri, "ok"), append(ro, "ok")
			for i := 0; i < nl; i++ {
				l := g.next()
				a, b := normRes(m.call(l)), normRes(o.call(toOracle(l)))
				f := strings.Fields(l)
				if f[2] == "mkdirtemp" && strings.HasPrefix(a, "ok b") && strings.HasPrefix(b, "ok b") {
					// both succeeded with different random names: the trees now differ by name only; end the history
					h, ri, ro = append(h, l), append(ri, "ok b ~"), append(ro, "ok b ~")
					break
				}
				if f[2] == "createtemp" && strings.HasPrefix(a, "ok h") && strings.HasPrefix(b, "ok h") {
					h, ri, ro = append(h, l), append(ri, a), append(ro, b)
					break
				}
				if strings.HasPrefix(a, "ok h ") {
					g.open = append(g.open, atoiS(strings.Fields(a)[2]))
				}
				kind, key := fsKey(l, a)
				st.Count(kind, key+fmt.Sprintf("|%d", i/16))
				if agree(l, a, b) {
					b = a
				}
				h, ri, ro = append(h, l), append(ri, a), append(ro, b)
				if a != b || m.dead {
					break
				}
				sa, sb := normRes(m.call(k.snap)), normRes(o.call(toOracle(k.snap)))
				h, ri, ro = append(h, k.snap), append(ri, sa), append(ro, sb)
				if sa != sb {
					break
				}
			}
			o.cleanup()
			if hi < 2 {
				n := min(len(h), 7)
				st.Sample(map[string]any{"history": h[:n], strings.ToLower(k.name): ri[:n], "kernel": ro[:n]})
			}
			if lib.FirstDiff(ri, ro) >= 0 {
				found = append(found, dis{h, ri, ro})
			}
		}
	}
	seen := map[string]bool{}
	for _, d := range found {
		small := lib.Shrink(d.h, 1, func(c lib.History) bool {
			_, a, b := runBothWith(k, c)
			return lib.FirstDiff(a, b) >= 0
		})
		l, a, b := runBothWith(k, small)
		di := lib.FirstDiff(a, b)
		if di < 0 {
			continue
		}
		cls := kernelClassWith(k, l, a, b, di)
		if seen[cls] {
			continue
		}
		seen[cls] = true
		what := fmt.Sprintf("%s and the Linux kernel disagree at %q: %s %q, kernel %q", k.name, l[di], k.name, trunc(a[di]), trunc(b[di]))
		res.Mismatches = append(res.Mismatches, lib.Mismatch{Kind: "known", Class: cls, What: what, History: l, Impl: a, Expected: b, Index: di})
	}
	st.Fill(res)
	return res
}

func trunc(s string) string {
	if len(s) > 300 {
		return s[:300] + "…"
	}
	return s
}

// situation describes an operand in the implementation's state before the call.
func situation(m *fsImpl, p string) string {
	vfs := m.views[0]
	if p == "/" {
		return "root"
	}
	li, err := vfs.Lstat(p)
	if err != nil {
		par := p
		if i := strings.LastIndex(p, "/"); i >= 0 {
			par = p[:i]
			if par == "" {
				par = "/"
			}
		}
		pi, perr := vfs.Stat(par)
		switch {
		case perr != nil:
			return "missing-parent:" + errName(err)
		case !pi.IsDir():
			return "below-nondir"
		}
		return "missing"
	}
	switch {
	case li.IsDir():
		return "dir"
	case li.Mode()&fs.ModeSymlink != 0:
		si, serr := vfs.Stat(p)
		switch {
		case serr != nil:
			return "link-" + errName(serr)
		case si.IsDir():
			return "link-dir"
		}
		return "link-file"
	}
	return "file"
}

// kernelClass names the divergence class of a disagreement (matched against the ledger by bin/check): the call,
// the situation of its path operands in the state before the call, and the two outcomes.
func kernelClass(l lib.History, a, b []string, d int) string {
	return kernelClassWith(kMemfs, l, a, b, d)
}

// kernelClassWith: kernelClass for the implementation k (its class prefix replaces "kernel.").
func kernelClassWith(k kImpl, l lib.History, a, b []string, d int) string {
	f := strings.Fields(l[d])
	op := f[2]
	sit := ""
	if op == "snapo" {
		op = "snap"
	}
	if op != "snap" && op != "file" {
		// replay the prefix on a fresh implementation to look at the operands
		m := k.mk()
		for _, pl := range l[:d] {
			pf := strings.Fields(pl)
			if len(pf) >= 3 && pf[2] != "snap" && pf[2] != "snapo" {
				m.call(pl)
			}
		}
		var sits []string
		for i, x := range f[3:] {
			if i >= 2 {
				break
			}
			if strings.HasPrefix(x, "2f") || x == "-" {
				if (op == "symlink" && i == 0) || (op == "writefile" && i == 1) || ((op == "mkdirtemp" || op == "createtemp") && i == 1) {
					continue
				}
				sits = append(sits, situation(m, lib.UnHex(x)))
			}
		}
		sit = "(" + strings.Join(sits, ",") + ")"
		if op == "openfile" && len(f) > 4 {
			sit += "flag" + f[4] + rdonlyPlus(f[4])
		}
	}
	if op == "snap" && d > 0 {
		pf := strings.Fields(l[d-1])
		pop := pf[2]
		if pop == "file" && len(pf) > 4 {
			pop = "file." + pf[4]
		}
		for _, pl := range l[:d] {
			pf2 := strings.Fields(pl)
			if len(pf2) >= 4 && pf2[2] == "setuser" {
				if pf2[3] != "0" {
					if !strings.HasSuffix(pop, "[u]") {
						pop += "[u]"
					}
				} else {
					pop = strings.TrimSuffix(pop, "[u]")
				}
			}
		}
		return k.class + "tree-after-" + pop
	}
	if op == "file" && len(f) > 4 {
		op = "file." + f[4]
		if (f[4] == "read" || f[4] == "readat") && len(f) > 5 && f[5] == "0" {
			op += "(len0)"
		}
		if (f[4] == "write" || f[4] == "writeat") && len(f) > 5 && f[5] == "-" {
			op += "(len0)"
		}
		// the flags the handle was opened with
		hid := f[3]
		n := 0
		for _, pl := range l[:d] {
			pf := strings.Fields(pl)
			if len(pf) >= 3 && (pf[2] == "openfile" || pf[2] == "create" || pf[2] == "createtemp") && strings.HasPrefix(a[indexOf(l, pl)], "ok h") {
				if fmt.Sprint(n) == hid {
					if pf[2] == "openfile" {
						op += "flag" + pf[4] + rdonlyPlus(pf[4])
					}
				}
				n++
			}
		}
	}
	// acting as a non-administrator?
	for _, pl := range l[:d] {
		pf := strings.Fields(pl)
		if len(pf) >= 4 && pf[2] == "setuser" {
			if pf[3] != "0" {
				if !strings.HasSuffix(sit, "[u]") {
					sit += "[u]"
				}
			} else {
				sit = strings.TrimSuffix(sit, "[u]")
			}
		}
	}
	return k.class + op + sit + "." + lib.OutcomeClass(a[d]) + "-vs-" + lib.OutcomeClass(b[d])
}

func indexOf(l lib.History, x string) int {
	for i, y := range l {
		if y == x {
			return i
		}
	}
	return 0
}

// rdonlyPlus marks open flags whose access mode is O_RDONLY combined with O_CREATE/O_EXCL/O_TRUNC/O_APPEND.
func rdonlyPlus(flag string) string {
	n := atoiS(flag)
	if n&3 == 0 && n != 0 {
		return "[rdonly+]"
	}
	return ""
}
