package main

import (
	"fmt"
	"path/filepath"
	"strings"
	"time"

	"github.com/avfs/avfs"
	"github.com/avfs/avfs/vfs/memfs"

	"verifharness/lib"
	"verifharness/winfp"
)

func init() { parts["path"] = corrPath }

var pathAlphabet = []string{"a", ".", "/", "\\", ":", "?", "*", "[", "]", "-", "^", "\xc3\xa9"}

func guard(f func() string) (s string) {
	defer func() {
		if r := recover(); r != nil {
			s = "!panic"
		}
	}()
	return f()
}

func withTimeout(f func() string) string {
	ch := make(chan string, 1)
	go func() { ch <- guard(f) }()
	select {
	case s := <-ch:
		return s
	case <-time.After(500 * time.Millisecond):
		return "!hang"
	}
}

func b2s(b bool) string {
	if b {
		return "true"
	}
	return "false"
}

func implAll1(vfs avfs.VFS, p string) string {
	h := lib.Hex
	var sb strings.Builder
	sb.WriteString("clean=" + guard(func() string { return h(vfs.Clean(p)) }))
	sb.WriteString(" base=" + guard(func() string { return h(vfs.Base(p)) }))
	sb.WriteString(" dir=" + guard(func() string { return h(vfs.Dir(p)) }))
	sb.WriteString(" split=" + guard(func() string { d, f := vfs.Split(p); return h(d) + "," + h(f) }))
	sb.WriteString(" isabs=" + guard(func() string { return b2s(vfs.IsAbs(p)) }))
	sb.WriteString(" vol=" + guard(func() string { return h(avfs.VolumeName(vfs, p)) }))
	sb.WriteString(" vlen=" + guard(func() string { return fmt.Sprint(avfs.VolumeNameLen(vfs, p)) }))
	sb.WriteString(" fs=" + guard(func() string { return h(vfs.FromSlash(p)) }))
	sb.WriteString(" ts=" + guard(func() string { return h(vfs.ToSlash(p)) }))
	sb.WriteString(" sa=" + guard(func() string { d, f := avfs.SplitAbs(vfs, p); return h(d) + "," + h(f) }))
	sb.WriteString(" fu=" + guard(func() string { return h(avfs.FromUnixPath(vfs, p)) }))
	return sb.String()
}

func oracleAll1Linux(p string) string {
	h := lib.Hex
	d, f := filepath.Split(p)
	return "clean=" + h(filepath.Clean(p)) + " base=" + h(filepath.Base(p)) + " dir=" + h(filepath.Dir(p)) +
		" split=" + h(d) + "," + h(f) + " isabs=" + b2s(filepath.IsAbs(p)) + " vol=" + h(filepath.VolumeName(p)) +
		" vlen=~ fs=" + h(filepath.FromSlash(p)) + " ts=" + h(filepath.ToSlash(p)) + " sa=~ fu=~"
}

var hangProbes int

func implAll2(vfs avfs.VFS, a, b string, relMayHang bool) string {
	h := lib.Hex
	var sb strings.Builder
	sb.WriteString("join=" + guard(func() string { return h(vfs.Join(a, b)) }))
	relf := func() string {
		r, err := vfs.Rel(a, b)
		if err != nil {
			return "!err"
		}
		return h(r)
	}
	if relMayHang {
		// the model predicts that the Go loop never exits: confirm on impl once per run (a hung call keeps
		// spinning until the process exits), take the model's word afterwards
		hangProbes++
		if hangProbes <= 1 {
			sb.WriteString(" rel=" + withTimeout(relf))
		} else {
			sb.WriteString(" rel=!hang")
		}
	} else {
		sb.WriteString(" rel=" + guard(relf))
	}
	sb.WriteString(" match=" + guard(func() string {
		m, err := vfs.Match(a, b)
		if err != nil {
			return "!bad"
		}
		return b2s(m)
	}))
	sb.WriteString(" abs=" + guard(func() string { r, _ := avfs.Abs(vfs, a, b); return h(r) }))
	return sb.String()
}

func oracleAll2Linux(a, b string) string {
	h := lib.Hex
	rel := "!err"
	if r, err := filepath.Rel(a, b); err == nil {
		rel = h(r)
	}
	mt := "!bad"
	if m, err := filepath.Match(a, b); err == nil {
		mt = b2s(m)
	}
	abs := ""
	if filepath.IsAbs(a) {
		abs = filepath.Clean(a)
	} else {
		abs = filepath.Join(b, a)
	}
	return "join=" + h(filepath.Join(a, b)) + " rel=" + rel + " match=" + mt + " abs=" + h(abs)
}

// The Windows oracle: the toolchain's own Windows implementation, retargeted mechanically by cmd/winx (package winfp).
func oracleAll1Win(p string) string {
	h := lib.Hex
	winfp.SetBudget(100000)
	d, f := winfp.Split(p)
	return "clean=" + h(winfp.Clean(p)) + " base=" + h(winfp.Base(p)) + " dir=" + h(winfp.Dir(p)) +
		" split=" + h(d) + "," + h(f) + " isabs=" + b2s(winfp.IsAbs(p)) + " vol=" + h(winfp.VolumeName(p)) +
		" vlen=" + fmt.Sprint(winfp.VolumeNameLen(p)) + " fs=" + h(winfp.FromSlash(p)) + " ts=" + h(winfp.ToSlash(p)) + " sa=~ fu=~"
}

var winHangProbes int

func oracleAll2Win(a, b string, relMayHang bool) string {
	h := lib.Hex
	relf := func() string {
		if r, err := winfp.Rel(a, b); err == nil {
			return h(r)
		}
		return "!err"
	}
	rel := "~"
	winfp.SetBudget(100000)
	if !relMayHang {
		rel = guard(relf)
	} else if winHangProbes++; winHangProbes <= 3 {
		rel = guard(relf)
	}
	if rel == "!panic" { // the toolchain's Rel exceeds the iteration budget (does not terminate): nothing to compare with
		rel = "~"
	}
	winfp.SetBudget(100000)
	mt := "!bad"
	if m, err := winfp.Match(a, b); err == nil {
		mt = b2s(m)
	}
	// Abs with an explicit current directory: syscall.FullPath has no counterpart, the documented meaning is used
	abs := ""
	if winfp.IsAbs(a) {
		abs = winfp.Clean(a)
	} else {
		abs = winfp.Join(b, a)
	}
	return "join=" + h(winfp.Join(a, b)) + " rel=" + rel + " match=" + mt + " abs=" + h(abs)
}

// implIter runs an iterator script on the real PathIterator, same format as the driver.
func implIter(vfs avfs.VFS, p string, ops []string) string {
	h := lib.Hex
	pi := avfs.NewPathIterator(vfs, p)
	opt := func(f func() string) string {
		return func() (s string) {
			defer func() {
				if recover() != nil {
					s = "!"
				}
			}()
			return h(f())
		}()
	}
	show := func(flag string) string {
		return fmt.Sprintf("%s:%d:%d:%s:%s:%s:%v", flag, pi.Start(), pi.End(), opt(pi.Left), opt(pi.Part), opt(pi.Right), pi.IsLast())
	}
	var acc []string
	for _, op := range ops {
		if op == "n" {
			more := pi.Next()
			fl := "F"
			if more {
				fl = "T"
			}
			acc = append(acc, show(fl))
		} else if strings.HasPrefix(op, "r:") {
			np := lib.UnHex(op[2:])
			var rs bool
			pan := func() (p bool) {
				defer func() {
					if recover() != nil {
						p = true
					}
				}()
				rs = pi.ReplacePart(np)
				return false
			}()
			if pan {
				acc = append(acc, "panic")
				break
			}
			fl := "K"
			if rs {
				fl = "R"
			}
			acc = append(acc, show(fl)+":"+h(pi.Path()))
		}
	}
	return strings.Join(acc, " ")
}

// field-wise comparison; "~" in the oracle means "no oracle for this field"
func fieldDiff(a, b string) string {
	fa, fb := strings.Fields(a), strings.Fields(b)
	if len(fa) != len(fb) {
		return "shape"
	}
	for i := range fa {
		if fa[i] != fb[i] && !strings.HasSuffix(fb[i], "=~") && !strings.HasSuffix(fa[i], "=~") {
			return strings.SplitN(fa[i], "=", 2)[0]
		}
	}
	return ""
}

func enumStrings(alpha []string, maxLen int, f func(string)) {
	var rec func(prefix string, n int)
	rec = func(prefix string, n int) {
		f(prefix)
		if n == maxLen {
			return
		}
		for _, a := range alpha {
			rec(prefix+a, n+1)
		}
	}
	rec("", 0)
}

func randPathString(r *lib.Rng, maxTok int) string {
	toks := []string{"a", "b", ".", "..", "/", "/", "\\", ":", "?", "*", "[", "]", "-", "^", "\xc3\xa9", "c:", "//", "\\\\", "a/", "../", "./", "\\\\h\\s", "[a-b]", "[^a]", "\\*", "??", "ab", "C:\\", "\xff", "\xe2\x82",
		"\\\\.\\UNC\\", "\\\\.\\", "\\\\?\\", "\\??\\", "UNC", "unc", "h", "s", "//./UNC/", "\\\\?\\C:\\", "\\\\.\\unc", "nul", "COM1",
		"[^\xc3\xa9]", "\xe2\x82\xac", "[^\xe2\x82\xac]", "*?", "*??", "*[^a]", "[a-\xc3\xa9]", "\\[", "[\\]]", "*\xa9", "\xc3", "[!a]", "a*b*", "**"}
	n := r.Intn(maxTok + 1)
	var sb strings.Builder
	for i := 0; i < n; i++ {
		sb.WriteString(lib.Pick(r, toks))
	}
	return sb.String()
}

func newTyped(osn string) (avfs.VFS, string) {
	t := avfs.OsLinux
	if osn == "windows" {
		t = avfs.OsWindows
	}
	vfs := memfs.NewWithOptions(&memfs.Options{OSType: t})
	if vfs.OSType() != t {
		return vfs, fmt.Sprintf("MemFS created with OSType %v reports OSType %v (build features %v)", t, vfs.OSType(), avfs.BuildFeatures())
	}
	return vfs, ""
}

func corrPath(seed uint64, tier string, replay []string) *lib.Result {
	res := &lib.Result{Property: "C13",
		Rule: "every string up to the length bound over the 12-symbol alphabet {a . / \\ : ? * [ ] - ^ é} through all one-argument functions (one case = one string × 11 functions), every pair up to the pair bound through Join/Rel/Match/Abs, every Match pattern of up to three tokens (* ? classes escapes multi-byte runes) against every name of up to two tokens (runes, stray continuation bytes), plus random token strings (incl. invalid UTF-8, UNC and drive prefixes) and PathIterator scripts; both OS types; impl built with avfs_setostype; distinct non-trivial = distinct (function, OS, result-shape class) where the result differs from the input or is an error"}
	st := lib.NewStats()
	if avfs.BuildFeatures()&avfs.FeatSetOSType == 0 {
		res.Notes = append(res.Notes, "harness built without avfs_setostype: generic path code not exercised")
	}
	max1, max2, nrand := 4, 2, 20000
	if tier == "thorough" {
		max1, max2, nrand = 6, 3, 400000
	}
	r := lib.NewRng(seed)
	for _, osn := range []string{"linux", "windows"} {
		vfs, bad := newTyped(osn)
		if bad != "" {
			res.Mismatches = append(res.Mismatches, lib.Mismatch{Kind: "violation", Class: "ostype.guard-inverted", What: bad,
				History: []string{"ostype new memfs " + osn}})
			continue
		}
		var lines []string
		var args [][2]string
		if replay != nil {
			for _, l := range replay {
				f := strings.Fields(l)
				if len(f) >= 4 && f[1] == osn {
					lines = append(lines, l)
					a := [2]string{lib.UnHex(f[3]), ""}
					if len(f) > 4 && f[2] != "iter" {
						a[1] = lib.UnHex(f[4])
					}
					args = append(args, a)
				}
			}
		} else {
			var singles []string
			enumStrings(pathAlphabet, max1, func(s string) { singles = append(singles, s) })
			for i := 0; i < nrand; i++ {
				singles = append(singles, randPathString(r, 7))
			}
			for _, s := range singles {
				lines = append(lines, "path "+osn+" all1 "+lib.Hex(s))
				args = append(args, [2]string{s, ""})
			}
			var small []string
			enumStrings(pathAlphabet, max2, func(s string) { small = append(small, s) })
			for _, a := range small {
				for _, b := range small {
					lines = append(lines, "path "+osn+" all2 "+lib.Hex(a)+" "+lib.Hex(b))
					args = append(args, [2]string{a, b})
				}
			}
			for i := 0; i < nrand; i++ {
				a, b := randPathString(r, 5), randPathString(r, 5)
				if r.Bool(30) { // related pairs for Rel
					b = a + "/" + randPathString(r, 3)
				}
				lines = append(lines, "path "+osn+" all2 "+lib.Hex(a)+" "+lib.Hex(b))
				args = append(args, [2]string{a, b})
			}
			// Match: every pattern of up to three pattern tokens against every name of up to two name tokens (multi-byte
			// runes on both sides: '*' backtracks byte by byte, '?' and classes consume runes, invalid bytes are U+FFFD)
			ptoks := []string{"*", "?", "[^\xc3\xa9]", "[a-\xc3\xa9]", "\xc3\xa9", "a", "\xe2\x82\xac", "x", "[^\xe2\x82\xac]", "\\*"}
			ntoks := []string{"\xc3\xa9", "\xe2\x82\xac", "a", "x", "\xa9", "\xc3", "*"}
			var pats, nms []string
			enumStrings(ptoks, 3, func(s string) { pats = append(pats, s) })
			enumStrings(ntoks, 2, func(s string) { nms = append(nms, s) })
			for _, pa := range pats {
				for _, nm := range nms {
					lines = append(lines, "path "+osn+" all2 "+lib.Hex(pa)+" "+lib.Hex(nm))
					args = append(args, [2]string{pa, nm})
				}
			}
			// iterator scripts on absolute paths
			for i := 0; i < nrand/4; i++ {
				root := "/"
				if osn == "windows" {
					root = "C:\\"
				}
				p := vfs.Join(root, randIterPath(r, osn))
				// state-aware script: ReplacePart only on a current part (after a successful Next), stop at the end
				var ops []string
				pi := avfs.NewPathIterator(vfs, p)
				more := false
				for k := r.Intn(7) + 1; k > 0; k-- {
					if more && r.Bool(30) {
						np := randIterPath(r, osn)
						if r.Bool(30) {
							np = root + np
						}
						ops = append(ops, "r:"+lib.Hex(np))
						pi.ReplacePart(np)
						more = false
					} else {
						ops = append(ops, "n")
						more = pi.Next()
						if !more {
							break
						}
					}
				}
				lines = append(lines, "path "+osn+" iter "+lib.Hex(p)+" "+strings.Join(ops, " "))
				args = append(args, [2]string{p, ""})
			}
		}
		model, err := lib.RunDriver(lines)
		if err != nil {
			res.Mismatches = append(res.Mismatches, lib.Mismatch{Kind: "unproved", Class: "corr-impl path", What: "driver failure " + err.Error()})
			return res
		}
		var spec []string
		if osn == "linux" {
			var sl []string
			for _, l := range lines {
				f := strings.Fields(l)
				if f[2] == "iter" {
					sl = append(sl, "#")
				} else {
					sl = append(sl, "pathspec "+strings.Join(f[2:], " "))
				}
			}
			spec, err = lib.RunDriver(sl)
			if err != nil {
				res.Mismatches = append(res.Mismatches, lib.Mismatch{Kind: "unproved", Class: "corr-oracle path", What: "driver failure " + err.Error()})
				return res
			}
		}
		seen := map[string]bool{}
		for i, l := range lines {
			f := strings.Fields(l)
			var impl, oracle string
			// every evaluation of the implementation runs under a watchdog: a helper that never returns (a loop that lost
			// its exit) is a violation with this line as failing input; the run of this OS type ends there (the goroutine
			// cannot be stopped)
			stuck := false
			evalImpl := func(fn func() string) string {
				ch := make(chan string, 1)
				go func() { ch <- fn() }()
				select {
				case r := <-ch:
					return r
				case <-time.After(3 * time.Second):
					stuck = true
					return "!hang"
				}
			}
			switch f[2] {
			case "all1":
				impl = evalImpl(func() string { return implAll1(vfs, args[i][0]) })
				if osn == "linux" {
					oracle = oracleAll1Linux(args[i][0])
				} else {
					oracle = oracleAll1Win(args[i][0])
				}
			case "all2":
				mayHang := strings.Contains(model[i], "rel=!hang")
				impl = evalImpl(func() string { return implAll2(vfs, args[i][0], args[i][1], mayHang) })
				if osn == "linux" {
					oracle = oracleAll2Linux(args[i][0], args[i][1])
				} else {
					oracle = oracleAll2Win(args[i][0], args[i][1], strings.Contains(model[i], "rel=!hang"))
				}
			case "iter":
				impl = evalImpl(func() string { return implIter(vfs, args[i][0], f[4:]) })
			}
			if stuck {
				res.Mismatches = append(res.Mismatches, lib.Mismatch{Kind: "violation", Class: "path.helper-never-returns", What: fmt.Sprintf("a path helper of the emulated %s file system did not return within 3 s on %s (the model predicts %q)", osn, l, model[i]),
					History: []string{l}, Impl: []string{"!hang"}, Model: []string{model[i]}})
				break
			}
			// statistics
			for _, fld := range strings.Fields(impl) {
				kv := strings.SplitN(fld, "=", 2)
				if len(kv) != 2 {
					st.Count(osn+"|iter", osn+"|iter|"+fmt.Sprint(len(f)))
					break
				}
				cls := "same"
				if strings.HasPrefix(kv[1], "!") {
					cls = kv[1]
				} else if kv[1] != f[3] {
					cls = "changed"
				}
				key := ""
				if cls != "same" {
					key = osn + "|" + kv[0] + "|" + cls + fmt.Sprint(len(kv[1])/4)
				}
				st.Count(osn+"|"+kv[0]+"|"+cls, key)
			}
			if i%50000 == 7 {
				st.Sample(map[string]string{"line": l, "impl": impl})
			}
			dModel := ""
			if f[2] == "iter" {
				if impl != model[i] {
					dModel = "iter"
				}
			} else {
				dModel = fieldDiff(impl, model[i])
			}
			dOracle := ""
			if oracle != "" {
				dOracle = fieldDiff(impl, oracle)
				// corr-oracle: the Lean reference semantics against the toolchain's path/filepath
				if ds := ""; osn == "linux" && func() bool { ds = fieldDiff(spec[i], oracle); return ds != "" }() && !seen["spec|"+ds] {
					seen["spec|"+ds] = true
					res.Mismatches = append(res.Mismatches, lib.Mismatch{Kind: "unproved", Class: "corr-oracle path " + ds,
						What:    fmt.Sprintf("Lean reference semantics of %s differs from path/filepath (defect of the spec, not of avfs): spec %q filepath %q", ds, spec[i], oracle),
						History: []string{l}, Model: []string{spec[i]}, Expected: []string{oracle}})
				}
			}
			implNoSa := impl
			if !strings.Contains(impl, "isabs=true") { // SplitAbs is documented for absolute paths only
				implNoSa = strings.Replace(impl, "sa=!panic", "sa=precondition", 1)
			}
			hangOrPanic := strings.Contains(implNoSa, "!panic") || strings.Contains(implNoSa, "!hang") || strings.Contains(implNoSa, "panic")
			if dModel == "" && dOracle == "" && !hangOrPanic {
				continue
			}
			what, kind, cls := "", "unproved", "corr-impl path"
			fn := dModel
			if dOracle != "" {
				fn = dOracle
				kind = "violation"
				what = fmt.Sprintf("%s on emulated %s differs from path/filepath: impl %q, filepath %q", fn, osn, impl, oracle)
			} else if hangOrPanic && dModel == "" {
				kind = "known"
				fn = "panic-or-hang"
				cls = classifyPathPanic(osn, f, impl)
				what = fmt.Sprintf("path helper panics or hangs on emulated %s: %s -> %s", osn, l, impl)
			} else {
				what = fmt.Sprintf("%s: implementation and Lean model differ on emulated %s (no oracle disagreement): impl %q model %q", fn, osn, impl, model[i])
			}
			sig := osn + "|" + fn + "|" + kind + "|" + cls
			if seen[sig] {
				continue
			}
			seen[sig] = true
			res.Mismatches = append(res.Mismatches, lib.Mismatch{Kind: kind, Class: cls, What: what, History: []string{l},
				Impl: []string{impl}, Model: []string{model[i]}, Expected: []string{oracle}})
		}
	}
	st.Fill(res)
	res.Exhaustive = replay == nil
	return res
}

func classifyPathPanic(osn string, f []string, impl string) string {
	if strings.Contains(impl, "fu=!panic") && f[3] == "-" {
		return "path.fromunixpath-empty-panics"
	}
	if strings.Contains(impl, "sa=!panic") {
		return "path.splitabs-relative-panics"
	}
	if strings.Contains(impl, "rel=!hang") {
		return "path.rel-unc-hang"
	}
	return "path.panic-other"
}

func randIterPath(r *lib.Rng, osn string) string {
	sep := "/"
	if osn == "windows" {
		sep = "\\"
	}
	toks := []string{"a", "b", "..", ".", "cc", "d"}
	n := r.Intn(4) + 1
	var el []string
	for i := 0; i < n; i++ {
		el = append(el, lib.Pick(r, toks))
	}
	return strings.Join(el, sep)
}
