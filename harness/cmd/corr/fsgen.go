package main

import (
	"fmt"
	"strings"

	"verifharness/lib"
)

// fsGen produces state-aware template-driven histories for the MemFS model (C01/C02/C04/C05/C11 share it).
type fsGen struct {
	r      *lib.Rng
	impl   *fsImpl
	opts   fsGenOpts
	nviews int
	vid    int   // the view the next line is for: operands are chosen in ITS tree
	open   []int // handle ids handed out so far
	tick   int64
	queue  []string // pending lines of a multi-line template
}

type fsGenOpts struct {
	symlinks  bool
	users     bool // non-admin users, chmod/chown mixes (C03)
	views     bool // Sub views (C11)
	enum      bool // Glob / WalkDir / existence helpers (C14)
	files     bool // handle operations (C02)
	unclean   bool // non-clean path forms
	aliasing  bool // bias to aliasing operands (C05)
	relative  bool
	orefa     bool   // OrefaFS: operands relative to the CURRENT directory, "/" and "" as operands, deep MkdirAll chains, fewer self-deadlocking Link operands
	smallOnly string // … restricted to this scenario
	small     bool   // bounded-exhaustive scenarios instead of random histories (small.go)
	rdonly    bool   // bias OpenFile to read-only opens of existing entries (wrappers whose handles are the subject: RoFS)
	kernel    bool   // histories compared with the kernel: clean paths, the root is never an operand of a mutating call, creation perms without setuid/setgid
}

var fsNames = []string{"a", "b", "c", "ab"} // "ab" extends "a": prefix-related sibling names

func (g *fsGen) pickExisting(kind string) (string, bool) {
	dirs, files, links := g.impl.existingPathsIn(g.vid)
	var pool []string
	switch kind {
	case "dir":
		pool = append(dirs, "/")
	case "file":
		pool = files
	case "link":
		pool = links
	default:
		pool = append(append(append([]string{}, dirs...), files...), links...)
	}
	if len(pool) == 0 {
		return "", false
	}
	return lib.Pick(g.r, pool), true
}

// path returns an operand according to a situation template.
func (g *fsGen) path() string {
	r := g.r
	var p string
	switch r.Intn(12) {
	case 0, 1:
		if q, ok := g.pickExisting("dir"); ok {
			p = q
		}
	case 2, 3:
		if q, ok := g.pickExisting("file"); ok {
			p = q
		}
	case 4:
		if q, ok := g.pickExisting("link"); ok {
			p = q
		}
	case 5, 6, 7: // missing (or existing) name in an existing directory
		if q, ok := g.pickExisting("dir"); ok {
			p = strings.TrimSuffix(q, "/") + "/" + lib.Pick(r, fsNames)
		}
	case 8: // missing parent
		if q, ok := g.pickExisting("dir"); ok {
			p = strings.TrimSuffix(q, "/") + "/" + lib.Pick(r, fsNames) + "/" + lib.Pick(r, fsNames)
		}
	case 9: // below a file or a link
		if q, ok := g.pickExisting("any"); ok {
			p = q + "/" + lib.Pick(r, fsNames)
		}
	case 10:
		p = lib.Pick(r, []string{"/", "/tmp", "/a", "/a/b", "/a/b/c", "/b"})
	case 11:
		if g.opts.aliasing {
			p = "/"
		} else {
			p = "/" + lib.Pick(r, fsNames)
		}
	}
	if p == "" || (g.opts.kernel && p == "/" && r.Bool(85)) {
		p = "/" + lib.Pick(r, fsNames)
	}
	if g.opts.unclean && r.Bool(12) {
		switch r.Intn(5) {
		case 0:
			p = strings.Replace(p, "/", "//", 1)
		case 1:
			p += "/"
		case 2:
			p += "/."
		case 3:
			p = p + "/../" + lastElem(p)
		case 4:
			p = "/." + p
		}
	}
	if g.opts.relative && r.Bool(10) {
		p = strings.TrimPrefix(p, "/")
	}
	if g.opts.orefa {
		p = g.orefaForm(p)
	}
	return p
}

// orefaForm rewrites an absolute operand for the OrefaFS histories: relative to the current directory of the
// implementation (below it, or through ".."), the empty name, "." and "..".
func (g *fsGen) orefaForm(p string) string {
	r := g.r
	cwd, _ := g.impl.views[0].Getwd()
	switch {
	case r.Bool(2):
		return lib.Pick(r, []string{"", ".", "..", "/"})
	case !strings.HasPrefix(p, "/") || !strings.HasPrefix(cwd, "/"):
		return p
	case cwd != "/" && strings.HasPrefix(p, cwd+"/") && r.Bool(50):
		return p[len(cwd)+1:]
	case cwd != "/" && r.Bool(12):
		return strings.Repeat("../", strings.Count(cwd, "/")) + p[1:]
	case cwd == "/" && p != "/" && r.Bool(8):
		return p[1:]
	}
	return p
}

// noRoot: in histories compared with the kernel the root is never the operand of remove / rename
// (the scratch directory of the oracle is not a file-system root).
func (g *fsGen) noRoot(p string) string {
	if g.opts.kernel && (p == "/" || p == "") {
		return "/" + lib.Pick(g.r, fsNames)
	}
	return p
}

// pattern: a glob pattern built from an operand path with meta characters substituted
func (g *fsGen) pattern() string {
	r := g.r
	p := g.path()
	els := strings.Split(p, "/")
	for i := range els {
		if els[i] == "" {
			continue
		}
		switch r.Intn(9) {
		case 0:
			els[i] = "*"
		case 1:
			els[i] = "?"
		case 2:
			els[i] = "[a-c]"
		case 3:
			els[i] = "[^a]"
		case 4:
			els[i] = els[i] + "*"
		case 5:
			els[i] = "\\" + els[i]
		case 6:
			els[i] = lib.Pick(r, []string{"[", "[]", "a[", "*[", "\\"})
		}
	}
	return strings.Join(els, "/")
}

func lastElem(p string) string {
	i := strings.LastIndex(p, "/")
	return p[i+1:]
}

// related returns a second operand related to the first (same, child, parent, sibling, other).
func (g *fsGen) related(p string) string {
	r := g.r
	if g.opts.orefa && r.Bool(55) {
		// fewer operands below the first one (Link(x, x/y) locks x twice: the history ends there)
		return g.path()
	}
	if r.Bool(15) {
		// a new name inside an EXISTING descendant directory of p (any depth)
		dirs, _, _ := g.impl.existingPathsIn(g.vid)
		var below []string
		for _, d := range dirs {
			if strings.HasPrefix(d, strings.TrimSuffix(p, "/")+"/") {
				below = append(below, d)
			}
		}
		if len(below) > 0 {
			return lib.Pick(r, below) + "/" + lib.Pick(r, fsNames)
		}
	}
	switch r.Intn(10) {
	case 0:
		return p
	case 1:
		return strings.TrimSuffix(p, "/") + "/" + lib.Pick(r, fsNames)
	case 2:
		return strings.TrimSuffix(p, "/") + "/" + lib.Pick(r, fsNames) + "/" + lib.Pick(r, fsNames)
	case 3:
		if i := strings.LastIndex(p, "/"); i > 0 {
			return p[:i]
		}
		return "/"
	case 4:
		if i := strings.LastIndex(p, "/"); i >= 0 {
			return p[:i+1] + lib.Pick(r, fsNames)
		}
	}
	return g.path()
}

// subDir returns the operand of a Sub call made in working directory cwd: mostly an existing directory, absolute or
// relative to cwd, or a name of cwd itself ("", ".", ...).
func (g *fsGen) subDir(cwd string) string {
	r := g.r
	dirs, _, _ := g.impl.existingPathsIn(g.vid)
	switch r.Intn(10) {
	case 0, 1:
		return lib.Pick(r, []string{"", ".", "./", "a/..", "./."})
	case 2, 3, 4:
		var below []string
		for _, d := range dirs {
			if cwd == "/" || strings.HasPrefix(d, cwd+"/") {
				below = append(below, strings.TrimPrefix(strings.TrimPrefix(d, cwd), "/"))
			}
		}
		if len(below) > 0 {
			return lib.Pick(r, below)
		}
		return lib.Pick(r, []string{"", ".", lib.Pick(r, fsNames)})
	case 5:
		return g.path()
	}
	if len(dirs) > 0 {
		return lib.Pick(r, dirs)
	}
	return "/tmp"
}

func (g *fsGen) linkTarget() string {
	r := g.r
	switch r.Intn(8) {
	case 0:
		return lib.Pick(r, fsNames)
	case 1:
		return "../" + lib.Pick(r, fsNames)
	case 2:
		return "."
	case 3:
		return ".."
	case 4:
		return lib.Pick(r, fsNames) + "/" + lib.Pick(r, fsNames)
	case 5:
		return "../" + lib.Pick(r, fsNames) + "/" + lib.Pick(r, fsNames)
	default:
		return g.path()
	}
}

var openFlags = []int{0, 1, 2, 0x40, 0x41, 0x42, 0xC1, 0xC2, 0x241, 0x242, 0x401, 0x402, 0x441, 0x442, 0x201, 0x202, 0x200, 0x400, 0x80, 0x2C2, 0x4C2}
var perms = []int{0o755, 0o644, 0o600, 0o700, 0o777, 0o666, 0o000, 0o400, 0o200, 0o500, 0o1777, 0o2755, 0o640, 0o444, 0o111}
var createPerms = []int{0o755, 0o644, 0o600, 0o700, 0o777, 0o666, 0o000, 0o400, 0o200, 0o500, 0o640, 0o444, 0o111}

// next produces the next protocol line (view chosen inside).
func (g *fsGen) next() string {
	r := g.r
	h := lib.Hex
	dom := g.impl.prefix()
	if len(g.queue) > 0 {
		l := g.queue[0]
		g.queue = g.queue[1:]
		return l
	}
	if g.opts.symlinks && r.Bool(3) {
		// links between sibling directories whose names are prefix-related (d, dx): relative and absolute, to a file and to a directory
		base := lib.Pick(r, []string{"/tmp", "/root", "/home"})
		d := lib.Pick(r, []string{"a", "b", "lib"})
		dx := d + lib.Pick(r, []string{"b", "64", "a"})
		g.queue = append(g.queue,
			fmt.Sprintf(dom+" 0 mkdirall %s 493", h(base+"/"+d)), fmt.Sprintf(dom+" 0 mkdirall %s 493", h(base+"/"+dx+"/sub")),
			fmt.Sprintf(dom+" 0 writefile %s %s 420", h(base+"/"+dx+"/f"), h("DX")), fmt.Sprintf(dom+" 0 writefile %s %s 420", h(base+"/"+dx+"/sub/g"), h("G")))
		tf, td := "../"+dx+"/f", "../"+dx
		if r.Bool(40) {
			tf, td = base+"/"+dx+"/f", base+"/"+dx
		}
		g.queue = append(g.queue, fmt.Sprintf(dom+" 0 symlink %s %s", h(tf), h(base+"/"+d+"/lf")), fmt.Sprintf(dom+" 0 symlink %s %s", h(td), h(base+"/"+d+"/ld")))
		for _, q := range []string{"readfile " + h(base+"/"+d+"/lf"), "stat " + h(base+"/"+d+"/lf"), "evalsymlinks " + h(base+"/"+d+"/lf"), "readfile " + h(base+"/"+d+"/ld/f"),
			"readdir " + h(base+"/"+d+"/ld"), "readfile " + h(base+"/"+d+"/ld/sub/g"), "evalsymlinks " + h(base+"/"+d+"/ld/sub"), "lstat " + h(base+"/"+d+"/ld")} {
			g.queue = append(g.queue, dom+" 0 "+q)
		}
		l := g.queue[0]
		g.queue = g.queue[1:]
		return l
	}
	if g.opts.symlinks && r.Bool(2) {
		// a chain of k symbolic links ending at a file, around the resolution budget, then queries through it
		k := lib.Pick(r, []int{1, 2, 5, 38, 39, 40, 41, 42})
		base := lib.Pick(r, []string{"/tmp", "/root"})
		g.queue = append(g.queue, fmt.Sprintf(dom+" 0 writefile %s %s 420", h(base+"/end"), h("E")))
		for i := k - 1; i >= 0; i-- {
			tgt := fmt.Sprintf("%s/l%d", base, i+1)
			if i == k-1 {
				tgt = base + "/end"
			}
			if r.Bool(50) {
				tgt = tgt[len(base)+1:] // relative sibling
			}
			g.queue = append(g.queue, fmt.Sprintf(dom+" 0 symlink %s %s", h(tgt), h(fmt.Sprintf("%s/l%d", base, i))))
		}
		for _, q := range []string{"stat", "lstat", "readfile", "evalsymlinks", "readlink"} {
			g.queue = append(g.queue, fmt.Sprintf(dom+" 0 %s %s", q, h(base+"/l0")))
		}
		if r.Bool(50) {
			// the same number of links FOLLOWED on the way to a directory, then a last element that is itself a link:
			// calls that do not follow it (Lstat, Readlink, Remove, Rename) have followed k links, the others k+1
			g.queue = append(g.queue, fmt.Sprintf(dom+" 0 mkdirall %s 493", h(base+"/dd")), fmt.Sprintf(dom+" 0 writefile %s %s 420", h(base+"/dd/f"), h("F")),
				fmt.Sprintf(dom+" 0 symlink %s %s", h("f"), h(base+"/dd/s")), fmt.Sprintf(dom+" 0 remove %s", h(base+"/end")), fmt.Sprintf(dom+" 0 symlink %s %s", h("dd"), h(base+"/end")))
			for _, q := range []string{"lstat", "readlink", "stat", "readfile"} {
				g.queue = append(g.queue, fmt.Sprintf(dom+" 0 %s %s", q, h(base+"/l0/s")))
			}
			g.queue = append(g.queue, fmt.Sprintf(dom+" 0 rename %s %s", h(base+"/l0/s"), h(base+"/l0/t")), fmt.Sprintf(dom+" 0 remove %s", h(base+"/l0/t")))
		}
		g.queue = append(g.queue, fmt.Sprintf(dom+" 0 removeall %s", h(base)))
		l := g.queue[0]
		g.queue = g.queue[1:]
		return l
	}
	vid := 0
	if g.opts.views && g.nviews > 1 && r.Bool(60) {
		vid = 1 + r.Intn(g.nviews-1)
	}
	g.vid = vid
	pre := fmt.Sprintf("%s %d ", dom, vid)
	if g.opts.files && len(g.open) > 0 && r.Bool(45) {
		return pre + "file " + fmt.Sprint(lib.Pick(r, g.open)) + " " + g.fileOp()
	}
	if g.opts.users && r.Bool(8) {
		u := lib.Pick(r, []int{0, 1001, 1002, 1003})
		gid := lib.Pick(r, []int{1001, 1002})
		if u == 0 {
			gid = 0
		}
		return pre + fmt.Sprintf("setuser %d %d %d", u, gid, b2i(u == 0))
	}
	if g.opts.users && r.Bool(3) {
		return pre + fmt.Sprintf("setumask %d", lib.Pick(r, []int{0, 0o022, 0o077, 0o027, 0o777, 0o002}))
	}
	if g.opts.views && r.Bool(3) {
		// a view of the working directory, or of a directory named relatively to it, after a Chdir through the same view
		if d, ok := g.pickExisting("dir"); ok {
			g.queue = append(g.queue, pre+"sub "+h(g.subDir(d)))
			return pre + "chdir " + h(d)
		}
	}
	if g.opts.views && r.Bool(6) {
		cwd, _ := g.impl.views[vid].Getwd()
		return pre + "sub " + h(g.subDir(cwd))
	}
	if vid == 0 && r.Bool(3) && !g.opts.views {
		// a directory directly below the root whose name comes back inside the path of a descendant, renamed: every
		// descendant must follow under the new prefix, once (file systems that keep paths as keys rewrite them)
		x := lib.Pick(r, []string{"a", "b", "c"})
		y := lib.Pick(r, []string{x, x + "b", "z" + x, x})
		z := lib.Pick(r, []string{"n", "nn", x + "x"})
		g.queue = append(g.queue, fmt.Sprintf(dom+" 0 mkdirall %s 493", h("/"+x+"/"+y+"/"+x)),
			fmt.Sprintf(dom+" 0 writefile %s %s 420", h("/"+x+"/"+y+"/f"), h("F")),
			fmt.Sprintf(dom+" 0 link %s %s", h("/"+x+"/"+y+"/f"), h("/"+x+"/g")),
			fmt.Sprintf(dom+" 0 rename %s %s", h("/"+x), h("/"+z)))
		for _, q := range []string{"lstat " + h("/"+z+"/"+y), "readfile " + h("/"+z+"/"+y+"/f"), "lstat " + h("/"+z+"/"+y+"/"+x), "readdir " + h("/"+z),
			"lstat " + h("/"+z+"/g"), "mkdir " + h("/"+z+"/"+y) + " 493", "remove " + h("/"+z+"/"+y), "lstat " + h("/"+x+"/"+y)} {
			g.queue = append(g.queue, dom+" 0 "+q)
		}
		l := g.queue[0]
		g.queue = g.queue[1:]
		return l
	}
	if g.opts.files && vid == 0 && r.Bool(3) {
		// an appending handle on a file that already has content: where the write lands, where the offset is afterwards,
		// what the next read sees; a second handle grows the file in between
		f := "/" + lib.Pick(r, []string{"ap", "tmp/ap"})
		ha, hb := g.impl.nextH, g.impl.nextH+1 // the two opens below succeed (the file has just been written)
		g.queue = append(g.queue, fmt.Sprintf(dom+" 0 writefile %s %s 420", h(f), h("abcdef")),
			fmt.Sprintf(dom+" 0 openfile %s %d 0", h(f), lib.Pick(r, []int{0x402, 0x401})),
			fmt.Sprintf(dom+" 0 openfile %s 2 0", h(f)),
			fmt.Sprintf(dom+" 0 file %d write %s", ha, h("xyz")), fmt.Sprintf(dom+" 0 file %d seek 0 1", ha), fmt.Sprintf(dom+" 0 file %d read 4", ha),
			fmt.Sprintf(dom+" 0 file %d seek 0 2", hb), fmt.Sprintf(dom+" 0 file %d write %s", hb, h("GROWN")),
			fmt.Sprintf(dom+" 0 file %d seek 1 0", ha), fmt.Sprintf(dom+" 0 file %d write %s", ha, h("!")), fmt.Sprintf(dom+" 0 file %d seek 0 1", ha),
			fmt.Sprintf(dom+" 0 readfile %s", h(f)))
		l := g.queue[0]
		g.queue = g.queue[1:]
		return l
	}
	if g.opts.users && !g.opts.views && vid == 0 && r.Bool(3) {
		// restricted deletion: a sticky directory everybody may write to, files of two users, each acting on the other's
		d := "/tmp/sh"
		g.queue = append(g.queue, dom+" 0 setuser 0 0 1", fmt.Sprintf(dom+" 0 mkdirall %s 511", h(d)), fmt.Sprintf(dom+" 0 chmod %s %d", h(d), 0o1777),
			dom+" 0 setuser 1001 1001 0", fmt.Sprintf(dom+" 0 writefile %s %s 420", h(d+"/a"), h("A")),
			dom+" 0 setuser 1002 1002 0", fmt.Sprintf(dom+" 0 writefile %s %s 420", h(d+"/b"), h("B")),
			dom+" 0 setuser 1001 1001 0")
		for _, q := range lib.Pick(r, [][]string{
			{"rename " + h(d+"/a") + " " + h(d+"/b"), "readfile " + h(d+"/b")},
			{"remove " + h(d+"/b"), "lstat " + h(d+"/b")},
			{"rename " + h(d+"/b") + " " + h(d+"/c"), "lstat " + h(d+"/b")},
			{"removeall " + h(d+"/b"), "lstat " + h(d+"/b")},
			{"rename " + h(d+"/a") + " " + h(d+"/c"), "rename " + h(d+"/c") + " " + h(d+"/b")}}) {
			g.queue = append(g.queue, dom+" 0 "+q)
		}
		g.queue = append(g.queue, dom+" 0 setuser 0 0 1")
		l := g.queue[0]
		g.queue = g.queue[1:]
		return l
	}
	if g.opts.enum && g.opts.users && vid == 0 && r.Bool(4) {
		// enumeration by a plain user over sibling directories of which one cannot be read / searched: matches gathered
		// before and after it, errors handed to the WalkDir callback
		base := lib.Pick(r, []string{"/tmp", "/tmp/t"})
		mode := lib.Pick(r, []int{0o711, 0o300, 0o000, 0o444, 0o755})
		which := lib.Pick(r, []string{"a", "b", "c"})
		g.queue = append(g.queue, fmt.Sprintf(dom+" 0 mkdirall %s 511", h(base)))
		for _, d := range []string{"a", "b", "c"} {
			g.queue = append(g.queue, fmt.Sprintf(dom+" 0 mkdirall %s 493", h(base+"/"+d)),
				fmt.Sprintf(dom+" 0 writefile %s %s 420", h(base+"/"+d+"/x"+d), h("X")))
		}
		g.queue = append(g.queue, fmt.Sprintf(dom+" 0 chmod %s %d", h(base+"/"+which), mode), dom+" 0 setuser 1001 1001 0")
		for _, q := range []string{"glob " + h(base+"/*/x*"), "glob " + h(base+"/[ab]/x?"), "glob " + h(base+"/?/*"), "walk " + h(base) + " c,c,c", "walk " + h(base) + " -", "walk " + h(base) + " d,d,d,d,d,d", "walk " + h(base) + " c,c,d,c,d,c,d", "walk " + h(base) + " c,a,a,a",
			"readdir " + h(base+"/"+which), "direxists " + h(base+"/"+which), "exists " + h(base+"/"+which+"/x"+which)} {
			g.queue = append(g.queue, dom+" 0 "+q)
		}
		g.queue = append(g.queue, dom+" 0 setuser 0 0 1")
		l := g.queue[0]
		g.queue = g.queue[1:]
		return l
	}
	if g.opts.enum && r.Bool(45) {
		switch r.Intn(6) {
		case 0, 1:
			return pre + "glob " + h(g.pattern())
		case 2, 3:
			var acts []string
			for k := r.Intn(6); k > 0; k-- {
				acts = append(acts, lib.Pick(r, []string{"c", "c", "c", "d", "a", "e"}))
			}
			as := "-"
			if len(acts) > 0 {
				as = strings.Join(acts, ",")
			}
			return pre + "walk " + h(g.path()) + " " + as
		default:
			return pre + lib.Pick(r, []string{"exists", "direxists", "isdir"}) + " " + h(g.path())
		}
	}
	n := 30
	if !g.opts.symlinks {
		n = 27
	}
	switch r.Intn(n) {
	case 0, 1:
		return pre + fmt.Sprintf("mkdir %s %d", h(g.path()), lib.Pick(r, createPerms))
	case 2:
		if g.opts.orefa && r.Bool(40) {
			// a chain of two to four missing directories below an existing one
			if d, ok := g.pickExisting("dir"); ok {
				p := strings.TrimSuffix(d, "/")
				for k := 2 + r.Intn(3); k > 0; k-- {
					p += "/" + lib.Pick(r, fsNames)
				}
				return pre + fmt.Sprintf("mkdirall %s %d", h(g.orefaForm(p)), lib.Pick(r, createPerms))
			}
		}
		return pre + fmt.Sprintf("mkdirall %s %d", h(g.path()), lib.Pick(r, createPerms))
	case 3, 4:
		return pre + fmt.Sprintf("writefile %s %s %d", h(g.path()), h(lib.Pick(r, []string{"", "x", "hello", "0123456789"})), lib.Pick(r, createPerms))
	case 5:
		if g.opts.orefa && r.Bool(35) {
			// a handle on a directory that has entries, for ReadDir / Readdirnames in batches
			if d, ok := g.pickExisting("any"); ok && d != "/" {
				return pre + fmt.Sprintf("openfile %s 0 0", h(g.orefaForm(d[:max(strings.LastIndex(d, "/"), 1)])))
			}
		}
		if g.opts.rdonly && r.Bool(60) {
			if q, ok := g.pickExisting(lib.Pick(r, []string{"file", "file", "dir", "any"})); ok {
				return pre + fmt.Sprintf("openfile %s 0 0", h(q))
			}
		}
		return pre + fmt.Sprintf("openfile %s %d %d", h(g.path()), lib.Pick(r, openFlags), lib.Pick(r, createPerms))
	case 6:
		return pre + "create " + h(g.path())
	case 7, 8:
		return pre + "remove " + h(g.noRoot(g.path()))
	case 9:
		return pre + "removeall " + h(g.noRoot(g.path()))
	case 10, 11, 12:
		p := g.noRoot(g.path())
		q := g.noRoot(g.related(p))
		return pre + "rename " + h(p) + " " + h(q)
	case 13, 14:
		p := g.path()
		q := g.related(p)
		return pre + "link " + h(p) + " " + h(q)
	case 15:
		if !g.opts.kernel && r.Bool(5) {
			return pre + fmt.Sprintf("truncate %s %d", h(g.path()), lib.Pick(r, []int{1 << 31, 1 << 40, 1<<63 - 1}))
		}
		return pre + fmt.Sprintf("truncate %s %d", h(g.path()), lib.Pick(r, []int{0, 1, 3, 20, -1}))
	case 16:
		if g.opts.kernel { // set-id bits have kernel rules of their own (inheritance, cleared by chown): not part of C01
			if g.opts.users && r.Bool(25) {
				// restricted deletion: the sticky bit on a directory others may write to
				if d, ok := g.pickExisting("dir"); ok {
					return pre + fmt.Sprintf("chmod %s %d", h(d), lib.Pick(r, []int{0o1777, 0o1775, 0o1755}))
				}
			}
			return pre + fmt.Sprintf("chmod %s %d", h(g.path()), lib.Pick(r, createPerms))
		}
		return pre + fmt.Sprintf("chmod %s %d", h(g.path()), lib.Pick(r, perms))
	case 17:
		if g.opts.rdonly && r.Bool(40) {
			// arguments that mean "leave unchanged": a read-only wrapper refuses the call all the same
			if p, ok := g.pickExisting(""); ok {
				return pre + fmt.Sprintf("%s %s -1 -1", lib.Pick(r, []string{"chown", "lchown"}), h(p))
			}
		}
		if g.opts.users || g.opts.orefa {
			return pre + fmt.Sprintf("chown %s %d %d", h(g.path()), lib.Pick(r, []int{0, 1001, 1002, -1}), lib.Pick(r, []int{0, 1001, 1002, -1}))
		}
		return pre + fmt.Sprintf("chown %s %d %d", h(g.path()), lib.Pick(r, []int{0, 1001}), lib.Pick(r, []int{0, 1001}))
	case 18:
		if g.opts.rdonly && r.Bool(40) {
			// time 0 stands for the zero time.Time ("leave unchanged" for os.Chtimes)
			if p, ok := g.pickExisting(""); ok {
				return pre + fmt.Sprintf("chtimes %s 0", h(p))
			}
		}
		g.tick++
		return pre + fmt.Sprintf("chtimes %s %d", h(g.path()), 1500000000000000000+g.tick*1000000000)
	case 19:
		return pre + "chdir " + h(g.path())
	case 20:
		return pre + "stat " + h(g.path())
	case 21:
		return pre + "lstat " + h(g.path())
	case 22:
		return pre + "readdir " + h(g.path())
	case 23:
		return pre + "readfile " + h(g.path())
	case 24:
		return pre + lib.Pick(r, []string{"getwd", "evalsymlinks " + h(g.path())})
	case 25:
		return pre + fmt.Sprintf("mkdirtemp %s %s ?", h(lib.Pick(r, []string{"", "/tmp", g.path()})), h(lib.Pick(r, []string{"t", "t*x", "*", "a/b", ""})))
	case 26:
		return pre + fmt.Sprintf("createtemp %s %s ?", h(lib.Pick(r, []string{"", "/tmp", g.path()})), h(lib.Pick(r, []string{"t", "t*x", "*", "a/b", ""})))
	case 27, 28:
		return pre + "symlink " + h(g.linkTarget()) + " " + h(g.path())
	default:
		return pre + lib.Pick(r, []string{"readlink " + h(g.path()), fmt.Sprintf("lchown %s %d %d", h(g.path()), 0, lib.Pick(r, []int{0, 1001}))})
	}
}

func b2i(b bool) int {
	if b {
		return 1
	}
	return 0
}

func (g *fsGen) fileOp() string {
	r := g.r
	offs := []int{-2, -1, 0, 1, 2, 3, 5, 9, 10, 11, 13, 30}
	if !g.opts.kernel && r.Bool(4) {
		// sizes, offsets and counts far beyond anything that can be served (the kernel accepts sparse files of that size:
		// not part of the histories compared with it)
		huge := []int{1 << 31, 1<<31 + 5, 1 << 40, 1 << 62, 1<<63 - 1}
		switch r.Intn(6) {
		case 0:
			return fmt.Sprintf("truncate %d", lib.Pick(r, huge))
		case 1:
			return fmt.Sprintf("writeat %s %d", lib.Hex("Y"), lib.Pick(r, huge))
		case 2:
			return fmt.Sprintf("seek %d %d", lib.Pick(r, huge), lib.Pick(r, []int{0, 1, 2}))
		case 3:
			return fmt.Sprintf("readat %d %d", lib.Pick(r, []int{1, 10}), lib.Pick(r, huge))
		case 4:
			return fmt.Sprintf("readdir %d", lib.Pick(r, huge))
		default:
			return fmt.Sprintf("readdirnames %d", lib.Pick(r, huge))
		}
	}
	switch r.Intn(16) {
	case 0, 1:
		return fmt.Sprintf("read %d", lib.Pick(r, []int{0, 1, 3, 10, 100}))
	case 2:
		return fmt.Sprintf("readat %d %d", lib.Pick(r, []int{0, 1, 3, 10}), lib.Pick(r, offs))
	case 3, 4:
		return "write " + lib.Hex(lib.Pick(r, []string{"", "Z", "11", "22", "abcde"}))
	case 5:
		return fmt.Sprintf("writeat %s %d", lib.Hex(lib.Pick(r, []string{"", "Y", "777"})), lib.Pick(r, offs))
	case 6, 7:
		off := lib.Pick(r, offs)
		return fmt.Sprintf("seek %d %d", off, lib.Pick(r, []int{0, 0, 1, 2, 2, 5}))
	case 8:
		return fmt.Sprintf("truncate %d", lib.Pick(r, []int{-1, 0, 1, 4, 12, 25}))
	case 9:
		return "stat"
	case 10:
		return lib.Pick(r, []string{"sync", "chdir"})
	case 11:
		if g.opts.kernel {
			return fmt.Sprintf("chmod %d", lib.Pick(r, createPerms))
		}
		return fmt.Sprintf("chmod %d", lib.Pick(r, perms))
	case 12:
		return fmt.Sprintf("chown %d %d", lib.Pick(r, []int{0, 1001}), lib.Pick(r, []int{0, 1001}))
	case 13:
		return "close"
	case 14:
		return fmt.Sprintf("readdir %d", lib.Pick(r, []int{-1, 0, 1, 2, 5}))
	default:
		return fmt.Sprintf("readdirnames %d", lib.Pick(r, []int{-1, 0, 1, 2, 5}))
	}
}
