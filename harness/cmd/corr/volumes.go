package main

import (
	"errors"
	"fmt"
	"sort"
	"strings"

	"github.com/avfs/avfs"
	"github.com/avfs/avfs/vfs/memfs"

	"verifharness/lib"
)

func init() { parts["volumes"] = corrVolumes }

// volImpl interprets the `vol` protocol on a Windows-typed MemFS (the only VolumeManager).
type volImpl struct{ fs *memfs.MemFS }

func volErr(err error) string {
	switch {
	case errors.Is(err, avfs.ErrVolumeNameInvalid):
		return "err nameinvalid"
	case errors.Is(err, avfs.ErrVolumeAlreadyExists):
		return "err exists"
	case errors.Is(err, avfs.ErrVolumeWindows):
		return "err notwindows"
	case errors.Is(err, avfs.ErrWinPathNotFound):
		return "err ENOENT"
	}
	return "err other:" + strings.ReplaceAll(err.Error(), " ", "_")
}

func hexNames(l []string) string {
	sort.Strings(l)
	h := make([]string, len(l))
	for i, s := range l {
		h[i] = lib.Hex(s)
	}
	return strings.Join(h, ",")
}

func (m *volImpl) call(line string) (out string) {
	defer func() {
		if r := recover(); r != nil {
			out = "panic"
		}
	}()
	f := strings.Fields(line)
	arg := func(i int) string { return lib.UnHex(f[i]) }
	switch f[1] {
	case "new":
		m.fs = memfs.NewWithOptions(&memfs.Options{OSType: avfs.OsWindows})
		return "ok"
	case "add":
		if err := m.fs.VolumeAdd(arg(2)); err != nil {
			return volErr(err)
		}
		return "ok"
	case "del":
		if err := m.fs.VolumeDelete(arg(2)); err != nil {
			return volErr(err)
		}
		return "ok"
	case "list":
		return strings.TrimSpace("ok " + hexNames(m.fs.VolumeList()))
	case "touch":
		if err := m.fs.WriteFile(arg(2)+`\`+arg(3), nil, 0o644); err != nil {
			return volErr(err)
		}
		return "ok"
	case "names":
		es, err := m.fs.ReadDir(arg(2) + `\`)
		if err != nil {
			return volErr(err)
		}
		var l []string
		for _, e := range es {
			l = append(l, e.Name())
		}
		return strings.TrimSpace("ok " + hexNames(l))
	}
	return "bad-op"
}

func corrVolumes(seed uint64, tier string, replay []string) *lib.Result {
	res := &lib.Result{Property: "C17",
		Rule: "volume management of a Windows-typed MemFS (needs the build tag avfs_setostype) against the Lean model Avfs.Volumes: EVERY sequence of up to 3 (thorough: 4) calls out of VolumeAdd / VolumeDelete on 8 paths (C: D: d: D:\\x E:/y, the empty path, a path without volume, a UNC path) and file creation in the root of 4 volumes (one of the files of the default volume is named like a volume), each followed by VolumeList and the listing of the root directory of every volume of the pool; plus random sequences of 14 calls; a case is one call; distinct non-trivial = distinct (call kind, outcome, number of volumes)"}
	st := lib.NewStats()
	if avfs.BuildFeatures()&avfs.FeatSetOSType == 0 {
		st.Fill(res)
		return res
	}
	paths := []string{"C:", "D:", "d:", `D:\x`, "E:/y", "", "x", `\\h\s\z`}
	vols := []string{"C:", "D:", "E:", `\\h\s`}
	var alpha []string
	for _, p := range paths {
		alpha = append(alpha, "vol add "+lib.Hex(p), "vol del "+lib.Hex(p))
	}
	for _, v := range vols {
		alpha = append(alpha, "vol touch "+lib.Hex(v)+" "+lib.Hex("f"), "vol touch "+lib.Hex(v)+" "+lib.Hex("g"))
	}
	// a file of the default volume whose name reads like a volume: deleting that volume must not touch it
	alpha = append(alpha, "vol touch "+lib.Hex("C:")+" "+lib.Hex("D:"))
	var obs []string
	obs = append(obs, "vol list")
	for _, v := range append(vols, "d:") {
		obs = append(obs, "vol names "+lib.Hex(v))
	}
	// the system directories the constructor creates in the default volume are read from the implementation
	probe := &volImpl{}
	probe.call("vol new")
	sys := strings.TrimPrefix(probe.call("vol names "+lib.Hex("C:")), "ok")
	newLine := strings.TrimSpace("vol new " + strings.ReplaceAll(strings.TrimSpace(sys), ",", " "))
	var hists [][]string
	if replay != nil {
		hists = append(hists, replay)
	} else {
		depth := 3
		if tier == "thorough" {
			depth = 4
		}
		var rec func(pre []string, d int)
		rec = func(pre []string, d int) {
			if len(pre) > 0 {
				hists = append(hists, append(append([]string{newLine}, pre...), obs...))
			}
			if d == 0 {
				return
			}
			for _, a := range alpha {
				rec(append(append([]string{}, pre...), a), d-1)
			}
		}
		rec(nil, depth)
		r := lib.NewRng(seed*7717 + 5)
		nr := 3000
		if tier == "thorough" {
			nr = 60000
		}
		for k := 0; k < nr; k++ {
			h := []string{newLine}
			for i := 0; i < 14; i++ {
				h = append(h, alpha[r.Intn(len(alpha))])
				if r.Bool(30) {
					h = append(h, obs[r.Intn(len(obs))])
				}
			}
			hists = append(hists, append(h, obs...))
		}
	}
	var lines []string
	for _, h := range hists {
		lines = append(lines, h...)
	}
	model, err := lib.RunDriver(lines)
	if err != nil {
		res.Mismatches = append(res.Mismatches, lib.Mismatch{Kind: "unproved", Class: "corr-impl volumes", What: "driver failure " + err.Error()})
		return res
	}
	seen := map[string]bool{}
	k := 0
	for _, h := range hists {
		m := &volImpl{}
		nvol := 1
		for i, l := range h {
			got := m.call(l)
			if l == newLine {
				got = "ok" // the model's `new` takes the system directories as arguments
			}
			want := strings.TrimSpace(model[k+i])
			f := strings.Fields(l)
			if got == "ok" && f[1] == "add" {
				nvol++
			} else if got == "ok" && f[1] == "del" {
				nvol--
			}
			key := f[1] + "|" + strings.Fields(got + " .")[0] + strings.TrimPrefix(got, "ok") + "|" + fmt.Sprint(nvol)
			if f[1] == "names" || f[1] == "list" {
				key = f[1] + "|" + got
			}
			st.Count(f[1]+"|"+strings.Join(strings.Fields(got + " .")[:1], ""), key)
			if got == want {
				continue
			}
			sig := f[1]
			if !seen[sig] && len(res.Mismatches) < 8 {
				seen[sig] = true
				res.Mismatches = append(res.Mismatches, lib.Mismatch{Kind: "violation", Class: "volumes." + f[1],
					What:    fmt.Sprintf("volume management: after %d calls, %s gives %q, the volume model (Avfs.Volumes, theorems C17_add_empty / C17_delete_gone / C17_others_untouched / C17_list_iff) says %q", i, l, got, want),
					History: append(lib.History{}, h[:i+1]...), Impl: []string{got}, Model: []string{want}})
			}
			break
		}
		k += len(h)
	}
	st.Sample(map[string]any{"alphabet": len(alpha), "histories": len(hists), "first": hists[0]})
	st.Fill(res)
	res.Exhaustive = replay == nil
	return res
}
