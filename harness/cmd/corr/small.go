package main

import (
	"fmt"
	"strings"

	"verifharness/lib"
)

// Bounded-exhaustive scenarios: a fixed small tree and EVERY sequence of up to L calls out of a small alphabet aimed at
// one object (one file through its name and two handles; one directory through a handle while it changes; one tree
// removed by a user who may not enter all of it). What random histories reach only when several dependent choices
// coincide (the same file three times in a row, a size equal to the current size, …) is reached here by construction.

// smallFilter (flag -scn): the scenarios a part runs when it is not given one by its caller.
var smallFilter []string

type smallScenario struct {
	name   string
	setup  []string // protocol lines without the "fs 0 " prefix
	alpha  []string
	quickL int
	thorL  int
}

func smallScenarios() []smallScenario {
	h := lib.Hex
	f := h("/tmp/f")
	fileAlpha := []string{
		"truncate " + f + " 0", "truncate " + f + " 2", "truncate " + f + " 6", "truncate " + f + " 8",
		"file 0 truncate 2", "file 0 truncate 6", "file 0 truncate 8", "file 1 truncate 6", "file 1 truncate 3",
		"file 0 write " + h("XY"), "file 0 seek 0 0", "file 0 seek 0 2", "file 0 read 3", "file 1 read 8",
		"file 0 writeat " + h("Z") + " 7", "file 0 readat 2 4", "readfile " + f,
	}
	fileSetup := []string{"writefile " + f + " " + h("abcdef") + " 420", "openfile " + f + " 2 0", "openfile " + f + " 0 0"}
	userAlpha := []string{
		"truncate " + f + " 0", "truncate " + f + " 2", "truncate " + f + " 6", "truncate " + f + " 8",
		"openfile " + f + " 1 0", "openfile " + f + " 0 0", "openfile " + f + " 513 0", "readfile " + f, "writefile " + f + " " + h("W") + " 420",
		"chmod " + f + " 438", "file 0 truncate 6", "file 0 write " + h("XY"), "file 1 truncate 6", "file 1 read 8", "chtimes " + f + " 1500000000000000000",
		"remove " + f, "rename " + f + " " + h("/tmp/g"), "link " + f + " " + h("/tmp/l"),
		"file 0 chown 1001 1001", "file 0 chown -1 1001", "file 1 chown 0 -1", "file 0 chmod 438",
	}
	d := h("/tmp/d")
	dirAlpha := []string{
		"file 0 readdir 1", "file 0 readdir -1", "file 0 readdirnames 1", "file 0 readdirnames 3", "file 0 readdirnames -1",
		"writefile " + h("/tmp/d/b") + " " + h("B") + " 420", "writefile " + h("/tmp/d/c") + " " + h("C") + " 420", "remove " + h("/tmp/d/a"),
	}
	t := h("/t")
	rmAlpha := []string{
		"writefile " + h("/t/f") + " " + h("F") + " 420", "writefile " + h("/t/g") + " " + h("G") + " 420", "link " + h("/t/f") + " " + h("/keep/l"),
		"removeall " + t, "removeall " + h("/t/k"), "remove " + h("/t/f"), "rename " + h("/t/f") + " " + h("/t/k/y"), "mkdir " + h("/t/e") + " 493",
		"symlink " + h("/t/f") + " " + h("/t/s"), "removeall " + h("/keep"),
	}
	// WalkDir over a three-level tree: one non-continue answer (SkipDir, SkipAll, an error) at every visit index, and pairs
	var walkAlpha []string
	for _, root := range []string{"/r", "/r/a", "/r/a/1", "/r/s"} {
		for k := 0; k < 12; k++ {
			for _, dev := range []string{"d", "a", "e"} {
				acts := strings.Repeat("c,", k) + dev
				walkAlpha = append(walkAlpha, "walk "+h(root)+" "+acts)
				if k%3 == 0 {
					walkAlpha = append(walkAlpha, "walk "+h(root)+" "+acts+",c,d", "walk "+h(root)+" "+acts+",d,c,a")
				}
			}
		}
		walkAlpha = append(walkAlpha, "walk "+h(root)+" -")
	}
	walkSetup := []string{"mkdirall " + h("/r/a/p") + " 493", "writefile " + h("/r/a/1") + " " + h("1") + " 420", "writefile " + h("/r/a/2") + " " + h("2") + " 420",
		"writefile " + h("/r/a/p/q") + " " + h("q") + " 420", "writefile " + h("/r/a/p/r") + " " + h("r") + " 420", "writefile " + h("/r/b") + " " + h("b") + " 420",
		"mkdirall " + h("/r/c") + " 493", "writefile " + h("/r/c/3") + " " + h("3") + " 420", "symlink " + h("/r/a") + " " + h("/r/s"), "mkdirall " + h("/r/z/y") + " 493"}
	// namespace calls among a handful of names: a directory with a file, an empty directory, a link to each
	nsSetup := []string{"mkdir " + h("/d") + " 493", "writefile " + h("/d/f") + " " + h("F") + " 420", "mkdir " + h("/e") + " 493",
		"symlink " + h("/d") + " " + h("/ld"), "symlink " + h("d/f") + " " + h("/lf")}
	nsAlpha := []string{
		"mkdir " + h("/d/n") + " 493", "mkdir " + h("/e") + " 493", "remove " + h("/d/f"), "remove " + h("/d"), "remove " + h("/e"), "remove " + h("/ld"),
		"rename " + h("/d/f") + " " + h("/e/f"), "rename " + h("/d") + " " + h("/e"), "rename " + h("/e") + " " + h("/d"), "rename " + h("/d/f") + " " + h("/d/g"),
		"rename " + h("/d") + " " + h("/d/x"), "rename " + h("/e") + " " + h("/d/f"), "rename " + h("/lf") + " " + h("/e/l"), "rename " + h("/d/f") + " " + h("/lf"),
		"link " + h("/d/f") + " " + h("/e/h"), "link " + h("/lf") + " " + h("/e/k"), "removeall " + h("/d"), "removeall " + h("/ld"), "mkdirall " + h("/e/x/y") + " 493",
		"mkdirall " + h("/ld/p/q") + " 493", "writefile " + h("/ld/w") + " " + h("W") + " 420", "readfile " + h("/lf"), "readdir " + h("/ld"), "lstat " + h("/e/l"),
		"truncate " + h("/lf") + " 0", "chmod " + h("/ld") + " 448", "symlink " + h("../e") + " " + h("/d/up"), "stat " + h("/d/up/f"),
		// the current directory entered through a link; links whose whole target is "." or ".."
		"chdir " + h("/ld"), "getwd", "mkdir " + h("n2") + " 493", "stat " + h("../e"), "symlink " + h("..") + " " + h("/d/dd"), "stat " + h("/d/dd/e"),
		// … with a remainder longer than the part of the path left of the link (the iterator must restart at the root)
		"stat " + h("/d/dd/home"),
		"symlink " + h(".") + " " + h("/d/here"), "readdir " + h("/d/here"),
		// operands BELOW a regular file
		"mkdirall " + h("/d/f/x") + " 493", "mkdir " + h("/d/f/x") + " 493", "writefile " + h("/d/f/x") + " " + h("X") + " 420", "remove " + h("/d/f/x"),
	}
	// the budget of followed links: a chain /c1 → /c2 → … → /c42 → /dd, so that /c<i>/s follows 43-i links before the
	// last element s (a link itself, followed or not according to the call)
	lbSetup := []string{"mkdir " + h("/dd") + " 493", "writefile " + h("/dd/f") + " " + h("F") + " 420", "symlink " + h("f") + " " + h("/dd/s"), "symlink " + h("/dd") + " " + h("/c42")}
	for i := 41; i >= 1; i-- {
		lbSetup = append(lbSetup, fmt.Sprintf("symlink %s %s", h(fmt.Sprintf("/c%d", i+1)), h(fmt.Sprintf("/c%d", i))))
	}
	var lbAlpha []string
	for _, i := range []int{1, 2, 3, 4, 5} {
		for _, q := range []string{"lstat", "readlink", "stat", "readfile", "readdir", "remove"} {
			p := fmt.Sprintf("/c%d/s", i)
			if q == "readdir" {
				p = fmt.Sprintf("/c%d", i)
			}
			lbAlpha = append(lbAlpha, q+" "+h(p))
		}
		lbAlpha = append(lbAlpha, fmt.Sprintf("rename %s %s", h(fmt.Sprintf("/c%d/s", i)), h(fmt.Sprintf("/c%d/t", i))), fmt.Sprintf("lchown %s 0 0", h(fmt.Sprintf("/c%d/s", i))),
			fmt.Sprintf("link %s %s", h(fmt.Sprintf("/c%d/f", i)), h(fmt.Sprintf("/c%d/g", i))))
	}
	// restricted deletion inside a tree that is removed as a whole
	stSetup := []string{"setumask 0", "mkdir " + h("/t") + " 511", "mkdir " + h("/t/d") + " 511", "writefile " + h("/t/d/h") + " " + h("H") + " 420", "chmod " + h("/t/d") + " 1023",
		"mkdir " + h("/t/d/sub") + " 511", "setumask 18", "setuser 1001 1001 0"}
	stAlpha := []string{"removeall " + h("/t/d"), "removeall " + h("/t"), "remove " + h("/t/d/h"), "writefile " + h("/t/d/mine") + " " + h("M") + " 420", "removeall " + h("/t/d/sub"),
		"writefile " + h("/t/d/sub/x") + " " + h("X") + " 420", "rename " + h("/t/d/h") + " " + h("/t/h"), "rename " + h("/t/d") + " " + h("/t/e"), "remove " + h("/t/d/mine"), "lstat " + h("/t/d/h")}
	// views (C11; run by the part memfs-small-views only, with the view oracles): a view of /d, one of /d/s made from it
	vwSetup := []string{"mkdirall " + h("/d/s") + " 493", "writefile " + h("/d/f") + " " + h("F") + " 420", "writefile " + h("/x") + " " + h("X") + " 420", "sub " + h("/d")}
	vwAlpha := []string{}
	for _, l := range []string{"1 readfile " + h("/f"), "1 readfile " + h("/../x"), "1 chdir " + h("/s"), "1 getwd", "1 mkdir " + h("n") + " 493", "0 chdir " + h("/d/s"), "0 getwd",
		"1 setuser 1001 1001 0", "1 setumask 63", "0 mkdir " + h("/d/m") + " 511", "1 writefile " + h("w") + " " + h("W") + " 420", "0 rename " + h("/d") + " " + h("/e"),
		"1 stat " + h("/"), "1 sub " + h("s"), "2 readdir " + h("/"), "1 remove " + h("/f"), "0 writefile " + h("/d/s/y") + " " + h("Y") + " 420", "2 readfile " + h("/y"),
		"1 rename " + h("/s") + " " + h("/t"), "0 setumask 0", "1 readdir " + h("."), "1 sub " + h("/s"), "0 sub " + h("/d/s")} {
		vwAlpha = append(vwAlpha, "@"+l)
	}
	// the permission bits of the ROOT directory itself and of a directory entered by Chdir: calls on the root alone, on
	// names in it, on "." — as the administrator and as a plain user
	rpAlpha := []string{"chmod " + h("/") + " 384", "chmod " + h("/") + " 457", "chmod " + h("/") + " 493", "setuser 1001 1001 0", "setuser 0 0 1",
		"stat " + h("/"), "lstat " + h("/"), "readdir " + h("/"), "stat " + h("/tmp"), "chmod " + h("/tmp") + " 448", "mkdir " + h("/tmp/x") + " 493",
		"chdir " + h("/tmp"), "stat " + h("."), "stat " + h(".."), "openfile " + h("/") + " 0 0"}
	// Glob with escaped characters (a pattern whose only special characters are backslash escapes still needs matching),
	// classes, multi-level patterns
	geSetup := []string{"writefile " + h("/g/a*") + " " + h("1") + " 420", "writefile " + h("/g/ab") + " " + h("2") + " 420", "mkdirall " + h("/g/d[1]") + " 493",
		"writefile " + h("/g/d[1]/f") + " " + h("3") + " 420", "mkdirall " + h("/g/dd") + " 493", "writefile " + h("/g/dd/f") + " " + h("4") + " 420"}
	geSetup = append([]string{"mkdirall " + h("/g") + " 493"}, geSetup...)
	var geAlpha []string
	for _, pat := range []string{"/g/a\\*", "/g/\\ab", "/g/d\\[1\\]/f", "/g/d\\[1\\]/*", "/g/d\\[1]/\\f", "/g/a*", "/g/d[1]/f", "/g/d*/f", "/g/*/f", "/g/d?/\\f", "/g/[a-d]*", "/g/a\\", "/g/*/[", "/g/\\a\\b", "/g\\/ab", "/*/ab", "/g/a[*]"} {
		geAlpha = append(geAlpha, "glob "+h(strings.ReplaceAll(pat, "\\\\", "\\")))
	}
	return []smallScenario{
		{"glob-escapes", geSetup, geAlpha, 1, 1},
		{"root-perm", nil, rpAlpha, 4, 4},
		{"views", vwSetup, vwAlpha, 3, 4},
		{"removeall-sticky", stSetup, stAlpha, 3, 4},
		{"link-budget", lbSetup, lbAlpha, 1, 2},
		{"namespace", nsSetup, nsAlpha, 3, 4},
		{"walk-answers", walkSetup, walkAlpha, 1, 1},
		{"file-admin", fileSetup, fileAlpha, 3, 4},
		{"file-other", append(append([]string{}, fileSetup...), "setuser 1001 1001 0"), userAlpha, 3, 4},
		{"file-owner-readonly", append(append([]string{}, fileSetup...), "chown "+f+" 1001 1001", "chmod "+f+" 292", "setuser 1001 1001 0"), userAlpha, 3, 4},
		{"file-group", append(append([]string{}, fileSetup...), "chown "+f+" 1002 1001", "chmod "+f+" 416", "setuser 1001 1001 0"), userAlpha, 3, 3},
		{"file-owner-foreign-group", append(append([]string{}, fileSetup...), "chown "+f+" 1001 1002", "chmod "+f+" 416", "setuser 1001 1001 0"), userAlpha, 2, 3},
		{"file-owner-other-only", append(append([]string{}, fileSetup...), "chown "+f+" 1001 1002", "chmod "+f+" 63", "setuser 1001 1001 0"), userAlpha, 2, 3},
		{"dir-handle", []string{"mkdir " + d + " 493", "writefile " + h("/tmp/d/a") + " " + h("A") + " 420", "openfile " + d + " 0 0"}, dirAlpha, 5, 6},
		{"removeall-foreign-subdir", []string{"setumask 0", "mkdir " + t + " 511", "mkdir " + h("/t/k") + " 493", "writefile " + h("/t/k/x") + " " + h("X") + " 420",
			"mkdir " + h("/keep") + " 511", "setumask 18", "setuser 1001 1001 0"}, rmAlpha, 4, 5},
	}
}

// smallHistories enumerates the scenarios; every history ends with a dump of the node graph.
func smallHistories(tier string, only string) (hs []lib.History, names []string) {
	return smallHistoriesDepth(tier, only, 0)
}

// smallHistoriesDepth: the same with the depth of every scenario changed by delta (never below 1).
func smallHistoriesDepth(tier string, only string, delta int) (hs []lib.History, names []string) {
	for _, sc := range smallScenarios() {
		if (only != "" && sc.name != only) || (only == "" && sc.name == "views") {
			continue
		}
		if only == "" && len(smallFilter) > 0 {
			keep := false
			for _, x := range smallFilter {
				keep = keep || x == sc.name
			}
			if !keep {
				continue
			}
		}
		depth := sc.quickL
		if tier == "thorough" {
			depth = sc.thorL
		}
		depth += delta
		if depth < 1 {
			depth = 1
		}
		var pre lib.History
		pre = append(pre, "fs new")
		for _, l := range sc.setup {
			pre = append(pre, "fs 0 "+l)
		}
		var rec func(seq []string, d int)
		rec = func(seq []string, d int) {
			if len(seq) > 0 {
				h := append(lib.History{}, pre...)
				for _, l := range seq {
					if strings.HasPrefix(l, "@") { // the view is part of the call
						h = append(h, "fs "+l[1:])
					} else {
						h = append(h, "fs 0 "+l)
					}
				}
				hs = append(hs, append(h, "fs 0 dump"))
				names = append(names, sc.name)
			}
			if d == 0 {
				return
			}
			for _, a := range sc.alpha {
				rec(append(append([]string{}, seq...), a), d-1)
			}
		}
		rec(nil, depth)
	}
	return hs, names
}

func smallRule() string {
	var parts []string
	for _, sc := range smallScenarios() {
		parts = append(parts, fmt.Sprintf("%s (%d calls, every sequence of ≤ %d, thorough ≤ %d)", sc.name, len(sc.alpha), sc.quickL, sc.thorL))
	}
	return strings.Join(parts, "; ")
}
