package main

import (
	"bytes"
	"crypto/sha256"
	"errors"
	"fmt"
	"os"
	"strconv"
	"strings"

	"github.com/avfs/avfs"
	"github.com/avfs/avfs/vfs/failfs"
	"github.com/avfs/avfs/vfs/memfs"
	"github.com/avfs/avfs/vfs/orefafs"
	"github.com/avfs/avfs/vfs/osfs"

	"verifharness/lib"
)

func init() { parts["copy"] = corrCopy }

func copyPattern(n int) []byte {
	b := make([]byte, n)
	for i := range b {
		b[i] = byte((i*7 + 3) % 251)
	}
	return b
}

var errInjected = errors.New("injected")

type copyEnv struct {
	name    string
	base    avfs.VFS
	dir     string
	cleanup func()
}

func mkBase(kind string) copyEnv {
	switch kind {
	case "memfs":
		return copyEnv{name: kind, base: memfs.New(), dir: "/tmp", cleanup: func() {}}
	case "orefafs":
		return copyEnv{name: kind, base: orefafs.New(), dir: "/tmp", cleanup: func() {}}
	default:
		d, err := os.MkdirTemp("/dev/shm", "avfs-verif-copy-")
		if err != nil {
			panic(err)
		}
		return copyEnv{name: kind, base: osfs.NewWithNoIdm(), dir: d, cleanup: func() { os.RemoveAll(d) }}
	}
}

// copyRun executes the real CopyFileHash / HashFile with the k-th consulted primitive failing (k<0: none).
func copyRun(fn string, srcKind, dstKind string, hasher bool, size int, fails map[int]bool, srcMode os.FileMode) string {
	se, de := mkBase(srcKind), mkBase(dstKind)
	defer se.cleanup()
	defer de.cleanup()
	data := copyPattern(size)
	srcPath := se.base.Join(se.dir, "src.bin")
	dstPath := de.base.Join(de.dir, "dst.bin")
	if err := se.base.WriteFile(srcPath, data, 0o600); err != nil {
		return "setup-error " + err.Error()
	}
	_ = se.base.Chmod(srcPath, srcMode)
	// the destination already exists and is longer than the source: a copy replaces it, it does not overlay it
	old := make([]byte, size+100)
	for i := range old {
		old[i] = 0xEE
	}
	_ = de.base.WriteFile(dstPath, old, 0o640)
	_ = de.base.Chmod(dstPath, 0o640) // differs from every source mode used and from the mode Create gives a new file
	ctr := 0
	var trace []string
	ff := func(side string) failfs.FailFunc {
		return func(_ avfs.VFSBase, f avfs.FnVFS, fp *failfs.FailParam) error {
			k := ctr
			ctr++
			ev := ""
			switch f {
			case avfs.FnOpenFile:
				if side == "src" {
					ev = "openSrc"
				} else {
					ev = "createDst"
				}
			case avfs.FnFileRead:
				ev = "read"
			case avfs.FnFileWrite:
				ev = "write"
			case avfs.FnFileSync:
				ev = "sync"
			case avfs.FnStat:
				ev = "stat"
			case avfs.FnChmod:
				ev = "chmod"
			case avfs.FnFileClose:
				if side == "src" {
					ev = "closeSrc"
				} else {
					ev = "closeDst"
				}
			default:
				ev = side + ":" + f.String()
			}
			if fails[k] {
				trace = append(trace, ev+"!")
				return errInjected
			}
			trace = append(trace, ev)
			return nil
		}
	}
	srcFs, dstFs := failfs.New(se.base), failfs.New(de.base)
	_ = srcFs.SetFailFunc(ff("src"))
	_ = dstFs.SetFailFunc(ff("dst"))
	compress := func() string {
		var out []string
		n := 0
		for i := 0; i < len(trace); i++ {
			if trace[i] == "read" && i+1 < len(trace) && trace[i+1] == "write" {
				n++
				i++
				continue
			}
			if n > 0 {
				out = append(out, fmt.Sprintf("rw*%d", n))
				n = 0
			}
			out = append(out, trace[i])
		}
		if n > 0 {
			out = append(out, fmt.Sprintf("rw*%d", n))
		}
		return strings.Join(out, ",")
	}
	want := sha256.Sum256(data)
	sumS := func(sum []byte) string {
		if sum == nil {
			return "sum=none"
		}
		if bytes.Equal(sum, want[:]) {
			return "sum=ok"
		}
		return "sum=bad"
	}
	if fn == "hash" {
		sum, err := avfs.HashFile(srcFs, srcPath, sha256.New())
		return fmt.Sprintf("err=%v %s trace=%s", err != nil, sumS(sum), compress())
	}
	var sum []byte
	var err error
	if hasher {
		sum, err = avfs.CopyFileHash(dstFs, srcFs, dstPath, srcPath, sha256.New())
	} else {
		err = avfs.CopyFile(dstFs, srcFs, dstPath, srcPath)
	}
	dstS := "dst=none"
	if info, e := de.base.Stat(dstPath); e == nil {
		got, _ := de.base.ReadFile(dstPath)
		if bytes.Equal(got, old) {
			// the copy failed before it reached the destination: the old file is still there, as if there were none
			return fmt.Sprintf("err=%v dst=none %s trace=%s", err != nil, sumS(sum), compress())
		}
		perm := "other"
		if info.Mode().Perm() == srcMode {
			perm = "src"
		}
		dstS = fmt.Sprintf("dst=%d:%v:%s", len(got), bytes.Equal(got, data), perm)
	}
	return fmt.Sprintf("err=%v %s %s trace=%s", err != nil, dstS, sumS(sum), compress())
}

// the property's own oracle on one run: a failed primitive (other than closing the source) must be reported,
// and a nil error means a faithful copy.
func copyOracle(line string) string {
	f := strings.Fields(line)
	kv := map[string]string{}
	for _, x := range f {
		p := strings.SplitN(x, "=", 2)
		if len(p) == 2 {
			kv[p[0]] = p[1]
		}
	}
	failed := false
	for _, e := range strings.Split(kv["trace"], ",") {
		if strings.HasSuffix(e, "!") && e != "closeSrc!" {
			failed = true
		}
	}
	if failed && kv["err"] == "false" {
		return "a primitive failed but a nil error was returned"
	}
	if kv["err"] == "false" {
		if d, ok := kv["dst"]; ok && !strings.HasSuffix(d, ":true:src") {
			return "nil error but destination is not a faithful copy (" + d + ")"
		}
		if kv["sum"] == "sum=bad" || kv["sum"] == "bad" {
			return "nil error but wrong digest"
		}
	}
	return ""
}

func corrCopy(seed uint64, tier string, replay []string) *lib.Result {
	res := &lib.Result{Property: "C16",
		Rule: "CopyFile/CopyFileHash/HashFile through FailFS on both sides, onto a destination that already exists, is longer than the source and has another mode (0640), the source having mode 0600 or 0644 (= the mode of a newly created file) in turn; for every (size in {0,1,32767,32768,32769,65536,100000}, source fs, destination fs, hasher on/off): the no-fault run and EVERY single-fault plan 'the k-th consulted primitive fails' (k over all invocations of that run; exhaustive per configuration); thorough adds all double-fault plans for small sizes and random sizes; a case is one run; distinct non-trivial = distinct (fs pair, size class, failed primitive kind, outcome)"}
	st := lib.NewStats()
	kinds := []string{"memfs", "orefafs", "osfs"}
	sizes := []int{0, 1, 32767, 32768, 32769, 65536, 100000}
	type job struct {
		line     string
		src, dst string
		mode     os.FileMode
	}
	var jobs []job
	if replay != nil {
		for _, l := range replay {
			f := strings.Fields(l)
			// "copy cfh h size k.. @src dst"
			src, dst := "memfs", "memfs"
			var core []string
			for _, x := range f {
				if strings.HasPrefix(x, "@") {
					p := strings.Split(x[1:], ",")
					src, dst = p[0], p[1]
				} else {
					core = append(core, x)
				}
			}
			mode := os.FileMode(0o600)
			for _, x := range f {
				if strings.HasPrefix(x, "@") {
					if p := strings.Split(x[1:], ","); len(p) > 2 && p[2] == "644" {
						mode = 0o644
					}
				}
			}
			jobs = append(jobs, job{strings.Join(core, " "), src, dst, mode})
		}
	} else {
		r := lib.NewRng(seed)
		if tier == "thorough" {
			for i := 0; i < 6; i++ {
				sizes = append(sizes, r.Intn(1<<20))
			}
		}
		cfgN := 0
		for _, sk := range kinds {
			for _, dk := range kinds {
				for _, sz := range sizes {
					for _, h := range []int{0, 1} {
						// the source has mode 0600, or 0644 = what Create gives a new file under the usual umask
						cfgN++
						mode := os.FileMode(0o600)
						if cfgN%2 == 1 {
							mode = 0o644
						}
						// count primitives of the fault-free run
						base := copyRun("cfh", sk, dk, h == 1, sz, nil, mode)
						n := 2*((sz+32767)/32768) + 8
						jobs = append(jobs, job{fmt.Sprintf("copy cfh %d %d -1", h, sz), sk, dk, mode})
						_ = base
						for k := 0; k < n; k++ {
							jobs = append(jobs, job{fmt.Sprintf("copy cfh %d %d %d", h, sz, k), sk, dk, mode})
						}
						if tier == "thorough" && sz <= 32769 {
							for k := 0; k < n; k++ {
								for k2 := k + 1; k2 < n; k2++ {
									jobs = append(jobs, job{fmt.Sprintf("copy cfh %d %d %d %d", h, sz, k, k2), sk, dk, mode})
								}
							}
						}
					}
				}
			}
			for _, sz := range sizes {
				n := (sz+32767)/32768 + 3
				for k := -1; k < n; k++ {
					jobs = append(jobs, job{fmt.Sprintf("copy hash %d %d", sz, k), sk, sk, 0o600})
				}
			}
		}
	}
	lines := make([]string, len(jobs))
	for i, j := range jobs {
		lines[i] = j.line
	}
	model, err := lib.RunDriver(lines)
	if err != nil {
		res.Mismatches = append(res.Mismatches, lib.Mismatch{Kind: "unproved", Class: "corr-impl copy", What: "driver failure " + err.Error()})
		return res
	}
	seen := map[string]bool{}
	for i, j := range jobs {
		f := strings.Fields(j.line)
		fails := map[int]bool{}
		var impl string
		if f[1] == "hash" {
			k, _ := strconv.Atoi(f[3])
			fails[k] = true
			impl = copyRun("hash", j.src, j.dst, true, atoi(f[2]), fails, j.mode)
		} else {
			for _, x := range f[4:] {
				k, _ := strconv.Atoi(x)
				fails[k] = true
			}
			impl = copyRun("cfh", j.src, j.dst, f[2] == "1", atoi(f[3]), fails, j.mode)
		}
		failedEv := "none"
		for _, e := range strings.Split(impl[strings.Index(impl, "trace=")+6:], ",") {
			if strings.HasSuffix(e, "!") {
				failedEv = e
			}
		}
		szc := "small"
		if sz := atoi(f[len(f)-2+btoi(f[1] == "hash")*0]); sz > 32768 {
			szc = "multi"
		}
		key := j.src + ">" + j.dst + "|" + f[1] + "|" + failedEv + "|" + strings.Fields(impl)[0] + "|" + szc
		st.Count(f[1]+"|"+failedEv+"|"+strings.Fields(impl)[0], key)
		if i%997 == 3 {
			st.Sample(map[string]string{"line": j.line, "fs": j.src + "," + j.dst, "impl": impl})
		}
		viol := copyOracle(impl)
		if impl == model[i] && viol == "" {
			continue
		}
		kind, what := "unproved", fmt.Sprintf("copy model and implementation differ on %q (%s->%s): impl %q model %q", j.line, j.src, j.dst, impl, model[i])
		if viol != "" {
			kind, what = "violation", fmt.Sprintf("%s: %q (%s->%s) gives %q", viol, j.line, j.src, j.dst, impl)
		}
		sig := kind + "|" + failedEv + "|" + f[1]
		if seen[sig] {
			continue
		}
		seen[sig] = true
		res.Mismatches = append(res.Mismatches, lib.Mismatch{Kind: kind, Class: "corr-impl copy", What: what,
			History: []string{j.line + " @" + j.src + "," + j.dst + fmt.Sprintf(",%o", j.mode)}, Impl: []string{impl}, Model: []string{model[i]}})
	}
	st.Fill(res)
	res.Exhaustive = replay == nil
	return res
}

func atoi(s string) int { n, _ := strconv.Atoi(s); return n }
func btoi(b bool) int {
	if b {
		return 1
	}
	return 0
}
