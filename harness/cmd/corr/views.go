package main

import (
	"fmt"
	"path"
	"strings"

	"verifharness/lib"
)

// C11's own oracles on the implementation, evaluated on every history of the views part:
//
//	O1 setter-leaks: SetUser / SetUMask / Chdir on one view leave every other view's user, umask and cwd alone.
//	O2 twin: a second MemFS on which every call made through view v is replayed through the root view on the
//	   same paths prefixed with the directory of v, acting as the user and with the umask of v; outcomes and the
//	   whole tree must stay equal.

// viewPathArgs: which arguments (after the op) are paths.
var viewPathArgs = map[string][]int{
	"mkdir": {0}, "mkdirall": {0}, "openfile": {0}, "create": {0}, "remove": {0}, "removeall": {0}, "rename": {0, 1}, "link": {0, 1},
	"truncate": {0}, "chmod": {0}, "chown": {0}, "lchown": {0}, "chtimes": {0}, "chdir": {0}, "stat": {0}, "lstat": {0}, "readdir": {0},
	"readfile": {0}, "readlink": {0}, "evalsymlinks": {0}, "writefile": {0}, "exists": {0}, "direxists": {0}, "isdir": {0}, "sub": {0},
}

// viewReadOnly: calls that neither change the tree nor allocate a handle.
var viewReadOnly = map[string]bool{"stat": true, "lstat": true, "readdir": true, "readfile": true, "readlink": true, "evalsymlinks": true,
	"exists": true, "direxists": true, "isdir": true}

type viewInfo struct {
	cwd      string
	uid, gid int
	umask    string
}

func getViewInfo(m *fsImpl, v int) (viewInfo, bool) {
	f := strings.Fields(m.call(fmt.Sprintf("fs %d viewinfo", v)))
	if len(f) != 5 || f[0] != "ok" {
		return viewInfo{}, false
	}
	return viewInfo{lib.UnHex(f[1]), atoiS(f[2]), atoiS(f[3]), f[4]}, true
}

func (vi viewInfo) String() string {
	return fmt.Sprintf("cwd=%s uid=%d gid=%d umask=%s", vi.cwd, vi.uid, vi.gid, vi.umask)
}

// viewAbs: the lexically cleaned absolute path (inside the view) of operand x for working directory cwd.
func viewAbs(cwd, x string) string {
	if !strings.HasPrefix(x, "/") {
		x = path.Join(cwd, x)
	}
	return path.Clean("/" + x)
}

// setterLeak is O1. It returns the first violation on h (nil if none).
func setterLeak(h lib.History) *lib.Mismatch {
	m := newFsImpl()
	links := false
	for i, l := range h {
		f := strings.Fields(l)
		if len(f) < 3 || f[1] == "new" {
			continue
		}
		v, op := atoiS(f[1]), f[2]
		links = links || op == "symlink"
		if _, ok := m.views[v]; !ok || (op != "setuser" && op != "setumask" && op != "chdir" && op != "sub") || len(f) < 4 {
			m.call(l)
			if m.dead {
				return nil
			}
			continue
		}
		before := map[int]viewInfo{}
		for w := range m.views {
			before[w], _ = getViewInfo(m, w)
		}
		o := m.call(l)
		if m.dead {
			return nil
		}
		mk := func(what string, obs ...string) *lib.Mismatch {
			return &lib.Mismatch{Kind: "violation", Class: "c11.setter-leaks." + op, What: what, History: append(lib.History{}, h[:i+1]...),
				Impl: append([]string{o}, obs...), Index: i}
		}
		for w := 0; w < m.nextV; w++ {
			if w == v && op != "sub" {
				continue
			}
			bw, existed := before[w]
			if !existed {
				continue // the view made by this very Sub call
			}
			if after, _ := getViewInfo(m, w); after != bw {
				return mk(fmt.Sprintf("%q on view %d changed view %d: before %v, after %v", l, v, w, before[w], after),
					fmt.Sprintf("view %d before: %v", w, before[w]), fmt.Sprintf("view %d after: %v", w, after))
			}
		}
		if o != "ok" || op == "sub" {
			continue
		}
		want, after := before[v], before[v]
		after, _ = getViewInfo(m, v)
		switch op {
		case "setuser":
			want.uid, want.gid = atoiS(f[3]), atoiS(f[4])
		case "setumask":
			want.umask = fmt.Sprintf("%o", toFileMode(uint32(atoiS(f[3]))))
		case "chdir":
			if links {
				continue
			}
			want.cwd = viewAbs(before[v].cwd, lib.UnHex(f[3]))
		}
		if after != want {
			return mk(fmt.Sprintf("%q on view %d returned ok but the view has %v instead of %v", l, v, after, want),
				fmt.Sprintf("view %d before: %v", v, before[v]), fmt.Sprintf("view %d after: %v", v, after))
		}
	}
	return nil
}

// covers: is directory d equal to or below p ?
func covers(p, d string) bool {
	return p == d || p == "/" || strings.HasPrefix(d, p+"/")
}

// stripName removes the name of the entry from a stat result (the root of a view is named differently from the
// directory it stands for).
func stripName(res string) string {
	if !strings.HasPrefix(res, "ok i ") {
		return res
	}
	if j := strings.IndexByte(res[5:], ':'); j >= 0 {
		return "ok i " + res[5+j:]
	}
	return res
}

// viewProbe is a name that never exists: looking it up in d tells whether d can be searched.
const viewProbe = "\x01none"

// viewRootSearchLegit: when the acting user has no search permission on the directory of the view, the parent refuses
// every path below it (EACCES) while the view, which like every MemFS never checks the permissions of its root,
// goes on. false = report it (class c11.view-root-search-permission-unchecked), true = end the simulation there.
const viewRootSearchLegit = false

// viewStats counts what the twin simulation covered and why it ended early.
var viewStats = map[string]int{}

func viewStop(why string) *lib.Mismatch {
	viewStats["stopped: "+why]++
	return nil
}

// viewTwin is O2. It returns the first violation on h (nil if none).
func viewTwin(h lib.History) *lib.Mismatch {
	m, t := newFsImpl(), newFsImpl()
	pre := map[int]string{0: "/"}
	usr := map[int][2]int{0: {0, 0}}
	um := map[int]int{0: 0o022}
	opener := map[int]int{} // handle -> view
	for i, l := range h {
		f := strings.Fields(l)
		if len(f) < 3 || f[1] == "new" {
			continue
		}
		v, op := atoiS(f[1]), f[2]
		switch op {
		case "dump", "snap", "viewinfo", "getwd":
			continue
		}
		if _, ok := m.views[v]; !ok {
			continue
		}
		a := f[3:]
		who := v         // the view whose user acts (the opener of the handle for handle calls)
		rootNoX := false // the user of the view may not search the directory of the view
		mk := func(what string, obs ...string) *lib.Mismatch {
			cls := "c11.view-differs-from-prefixed-parent." + op
			if rootNoX {
				cls = "c11.view-root-search-permission-unchecked"
				what += fmt.Sprintf(" (uid %d has no search permission on %s: the parent refuses to go through it, the view never checks the permissions of its own root)", usr[who][0], pre[who])
			}
			return &lib.Mismatch{Kind: "violation", Class: cls, What: what, History: append(lib.History{}, h[:i+1]...), Impl: obs, Index: i}
		}
		switch op {
		case "setuser":
			m.call(l)
			usr[v] = [2]int{atoiS(a[0]), atoiS(a[1])}
			continue
		case "setumask":
			m.call(l)
			um[v] = atoiS(a[0])
			continue
		}
		temp := op == "mkdirtemp" || op == "createtemp"
		if temp && len(a) < 2 {
			return viewStop("bad-args")
		}
		idx, known := viewPathArgs[op]
		if !known && op != "file" && !temp {
			return viewStop("unknown-op")
		}
		vi, ok := getViewInfo(m, v)
		if !ok {
			return viewStop("no-viewinfo")
		}
		// the translated line
		tf := append([]string{"fs", "0", op}, a...)
		empty := false
		var tp []string
		for _, k := range idx {
			if k >= len(a) {
				return viewStop("bad-args")
			}
			x := lib.UnHex(a[k])
			empty = empty || (x == "" && op != "sub")
			x = path.Clean(pre[v] + "/" + viewAbs(vi.cwd, x))
			tp = append(tp, x)
			tf[3+k] = lib.Hex(x)
		}
		o := m.call(l)
		if m.dead {
			return viewStop("impl-dead")
		}
		if temp {
			// random names. A refused call is replayed as it is (an empty directory is /tmp of the view); a successful one
			// as what MkdirTemp / CreateTemp are: Mkdir(name, 0o700) / OpenFile(name, O_RDWR|O_CREATE|O_EXCL, 0o600)
			d := lib.UnHex(a[0])
			if d == "" {
				d = "/tmp"
			}
			tf[3] = lib.Hex(path.Clean(pre[v] + "/" + viewAbs(vi.cwd, d)))
			var name string
			switch {
			case strings.HasPrefix(o, "ok b "):
				name = lib.UnHex(o[5:])
			case strings.HasPrefix(o, "ok h "):
				if fl, ok := m.handles[atoiS(o[5:])]; ok {
					name = fl.Name()
				}
			}
			if name != "" {
				name = lib.Hex(path.Clean(pre[v] + "/" + viewAbs(vi.cwd, name)))
				tf = []string{"fs", "0", "mkdir", name, "448"}
				if op == "createtemp" {
					tf = []string{"fs", "0", "openfile", name, "194", "384"}
				}
			} else if !strings.HasPrefix(o, "err ") {
				return viewStop("temp-name")
			}
		}
		if op == "file" {
			if len(a) < 2 || a[1] == "chdir" {
				return viewStop("handle-chdir")
			}
			if w, ok := opener[atoiS(a[0])]; ok {
				who = w
			}
		}
		if op == "remove" || op == "removeall" || op == "rename" || op == "link" {
			// the entry of the view's directory in ITS parent is outside the view: the root of a view can be neither
			// removed, renamed nor linked through the view (as "/" cannot in any file system)
			for _, x := range tp {
				empty = empty || (v != 0 && x == pre[v])
			}
		}
		if empty {
			// not replayed; besides, Abs("") is the working directory, yet some calls treat the empty name on its own
			if !strings.HasPrefix(o, "err ") && !viewReadOnly[op] {
				return viewStop("empty-or-root-operand-with-effect")
			}
			if m.call("fs 0 snap") != t.call("fs 0 snap") {
				return viewStop("skipped-call-changed-tree")
			}
			continue
		}
		t.call(fmt.Sprintf("fs 0 setuser %d %d %d", usr[who][0], usr[who][1], b2i(usr[who][0] == 0)))
		t.call(fmt.Sprintf("fs 0 setumask %d", um[who]))
		if usr[who][0] != 0 && pre[who] != "/" {
			// the directories above the root of a view are not traversed through the view: when the user of the
			// view cannot traverse them in the parent the two legitimately differ
			if r := t.call("fs 0 stat " + lib.Hex(pre[who])); !strings.HasPrefix(r, "ok ") {
				return viewStop("dirs-above-view-not-traversable")
			}
			// the directory of the view itself: MemFS never checks the search permission of a root directory
			switch r := t.call("fs 0 stat " + lib.Hex(pre[who]+"/"+viewProbe)); {
			case r == "err EACCES" && viewRootSearchLegit:
				return viewStop("view-root-not-searchable")
			case r == "err EACCES":
				rootNoX = true
			case r != "err ENOENT":
				return viewStop("view-root-gone")
			}
		}
		ot := t.call(strings.Join(tf, " "))
		viewStats["calls replayed"]++
		if v != 0 {
			viewStats["calls replayed through a view"]++
		}
		if t.dead {
			return viewStop("twin-dead")
		}
		cm, ct := o, ot
		switch {
		case op == "sub" || op == "openfile" || op == "create" || temp:
			// view and handle ids, random names: only the kind
			if lib.OutcomeClass(cm) == "ok" && lib.OutcomeClass(ct) == "ok" {
				cm, ct = "ok", "ok"
			}
		case op == "evalsymlinks":
			if strings.HasPrefix(cm, "ok b ") && strings.HasPrefix(ct, "ok b ") {
				if r := lib.UnHex(cm[5:]); strings.HasPrefix(r, "/") {
					cm = "ok b " + lib.Hex(path.Clean(pre[v]+"/"+r))
				} else {
					cm, ct = "ok b", "ok b"
				}
			}
		case op == "stat" || op == "lstat":
			if tp[0] == pre[v] && v != 0 {
				cm, ct = stripName(cm), stripName(ct)
			}
		case op == "file" && a[1] == "stat":
			cm, ct = stripName(cm), stripName(ct)
		}
		if cm != ct {
			return mk(fmt.Sprintf("%q through view %d (directory %s, %v) returns %q; the parent returns %q for %q as the same user",
				l, v, pre[v], vi, trunc(o), trunc(ot), viewLineText(tf)), "view: "+o, "parent: "+ot)
		}
		if strings.HasPrefix(o, "ok h ") {
			opener[atoiS(strings.Fields(o)[2])] = v
		}
		if op == "sub" && strings.HasPrefix(o, "ok v ") {
			id := atoiS(strings.Fields(o)[2])
			pre[id], usr[id], um[id] = tp[0], usr[v], um[v]
			ni, _ := getViewInfo(m, id)
			if want := fmt.Sprintf("%o", toFileMode(uint32(um[v]))); ni.uid != usr[v][0] || ni.gid != usr[v][1] || ni.umask != want {
				return mk(fmt.Sprintf("the view returned by %q does not start with the user and umask of its parent (uid=%d gid=%d umask=%s): %v",
					l, usr[v][0], usr[v][1], want, ni), "new view: "+ni.String())
			}
		}
		if op == "removeall" && o != "ok" {
			// which entries a refused RemoveAll released depends on Go's map iteration order
			return viewStop("removeall-refused")
		}
		if len(pre) == 1 {
			// no view yet: the twin has been given the very same calls
			continue
		}
		sm, st := m.call("fs 0 snap"), t.call("fs 0 snap")
		if m.dead || t.dead {
			return viewStop("dead-at-snap")
		}
		if sm != st {
			return mk(fmt.Sprintf("after %q through view %d (directory %s, %v) the tree differs from the tree after %q on the parent",
				l, v, pre[v], vi, viewLineText(tf)), "view: "+o, "parent: "+ot, "tree after view call: "+sm, "tree after parent call: "+st)
		}
		// a view whose directory was renamed, replaced or removed no longer stands for that path
		if op == "rename" || op == "remove" || op == "removeall" {
			for w, d := range pre {
				if w == 0 || d == "/" {
					continue
				}
				for _, x := range tp {
					if covers(x, d) && (o == "ok" || op == "removeall") {
						return viewStop("view-dir-renamed-or-removed")
					}
				}
			}
		}
	}
	viewStats["histories run to the end"]++
	return nil
}

// viewLineText renders a protocol line with its path arguments decoded.
func viewLineText(f []string) string {
	out := append([]string{}, f[:3]...)
	idx := viewPathArgs[f[2]]
	for k, x := range f[3:] {
		for _, j := range idx {
			if j == k {
				x = lib.UnHex(x)
			}
		}
		out = append(out, x)
	}
	return strings.Join(out, " ")
}

// viewsOracles evaluates O1 and O2 on one history and shrinks what they report (one report per class).
func viewsOracles(h lib.History, seen map[string]bool) []*lib.Mismatch {
	var out []*lib.Mismatch
	for _, orc := range []func(lib.History) *lib.Mismatch{setterLeak, viewTwin} {
		mm := orc(h)
		if mm == nil || seen[mm.Class] {
			continue
		}
		seen[mm.Class] = true
		keep := map[string]int{}
		for k, n := range viewStats {
			keep[k] = n
		}
		small := lib.Shrink(mm.History, 1, func(c lib.History) bool {
			x := orc(c)
			return x != nil && x.Class == mm.Class
		})
		if sm := orc(small); sm != nil && sm.Class == mm.Class {
			mm = sm
		}
		viewStats = keep
		out = append(out, mm)
	}
	return out
}
