package main

import (
	"bytes"
	"errors"
	"fmt"
	"strings"

	"github.com/avfs/avfs"
	"github.com/avfs/avfs/vfs/failfs"
	"github.com/avfs/avfs/vfs/memfs"
	"github.com/avfs/avfs/vfs/rofs"

	"verifharness/lib"
)

func init() {
	parts["rofs"] = corrRofs
	parts["failfs"] = corrFailfs
}

// newFsOn: an interpreter whose view 0 is the given file system.
func newFsOn(vfs avfs.VFS) *fsImpl {
	return &fsImpl{views: map[int]avfs.VFS{0: vfs}, handles: map[int]avfs.File{}, nextV: 1, mtimes: map[int64]bool{}}
}

// prefill builds a small tree on a MemFS through its own API.
func prefill(vfs avfs.VFS, r *lib.Rng) {
	_ = vfs.MkdirAll("/a/b", 0o755)
	_ = vfs.WriteFile("/a/f", []byte("hello"), 0o644)
	_ = vfs.WriteFile("/a/b/g", []byte("0123456789"), 0o600)
	_ = vfs.WriteFile("/a/big", bytes.Repeat([]byte("0123456789abcdef"), 80), 0o644) // longer than the buffer ReadFile starts with
	_ = vfs.Symlink("/a/f", "/l")
	_ = vfs.Link("/a/f", "/h")
	if r.Bool(50) {
		_ = vfs.MkdirAll("/c", 0o700)
		_ = vfs.WriteFile("/c/x", []byte("x"), 0o444)
	}
}

var mutatingCalls = map[string]bool{"mkdir": true, "mkdirall": true, "create": true, "remove": true, "removeall": true,
	"rename": true, "link": true, "symlink": true, "truncate": true, "chmod": true, "chown": true, "lchown": true, "chtimes": true,
	"writefile": true, "mkdirtemp": true, "createtemp": true}
var mutatingFileOps = map[string]bool{"write": true, "writeat": true, "truncate": true, "chmod": true, "chown": true, "sync": true}

func permClass(res string) bool { return res == "err EACCES" || res == "err EPERM" }

// rawDump: the base's internal graph with raw modification times (C09 includes them).
func rawDump(m *memfs.MemFS) string { return m.VerifDump() }

func corrRofs(seed uint64, tier string, replay []string) *lib.Result {
	res := &lib.Result{Property: "C09",
		Rule: "random histories of every VFS/File call (OpenFile with random flag values, Sub followed by calls on the result, handle methods) issued through RoFS over a pre-filled MemFS; the base's whole node graph (contents, modes, owners, modification times) is dumped before and after EVERY call; a mutating call must fail with a permission-class error, a read-only call must return what the base returns; first, once, every mutating call with arguments that ask for NO change (current mode / owner / size, -1, zero time, existing directory, missing name, empty data, rename onto itself, every write flag of OpenFile) on every kind of node and through read-only handles; a case is one call; distinct non-trivial = distinct (call kind, outcome)"}
	st := lib.NewStats()
	nh, nl := 150, 40
	if tier == "thorough" {
		nh, nl = 2500, 60
	}
	r := lib.NewRng(seed*31337 + 9)
	seen := map[string]bool{}
	if replay == nil {
		// calls whose arguments ask for NO change (current mode, current owner, -1, current size, zero or current
		// time, an existing directory, a missing name, empty data, rename onto itself): a read-only file system refuses
		// them like any other mutating call, and the base stays as it is — every such call on every kind of node
		_ = avfs.SetUMask(0o022)
		base := memfs.New()
		prefill(base, lib.NewRng(2))
		w := newFsOn(rofs.New(base))
		hx := lib.Hex
		var noop []string
		for _, p := range []string{"/a/f", "/a/b", "/l", "/h", "/missing", "/a/big", "/"} {
			mode, uid, gid, size := 0o644, 0, 0, 0
			if fi, err := base.Stat(p); err == nil {
				mode, size = int(fi.Mode().Perm()), int(fi.Size())
				if st := base.ToSysStat(fi); st != nil {
					uid, gid = st.Uid(), st.Gid()
				}
			}
			noop = append(noop, fmt.Sprintf("chmod %s %d", hx(p), mode), fmt.Sprintf("chown %s -1 -1", hx(p)), fmt.Sprintf("chown %s %d %d", hx(p), uid, gid),
				fmt.Sprintf("lchown %s -1 -1", hx(p)), fmt.Sprintf("lchown %s %d %d", hx(p), uid, gid), fmt.Sprintf("chtimes %s 0", hx(p)),
				fmt.Sprintf("truncate %s %d", hx(p), size), fmt.Sprintf("mkdirall %s 493", hx(p)), fmt.Sprintf("mkdir %s 493", hx(p)),
				fmt.Sprintf("remove %s", hx(p+"/nothing")), fmt.Sprintf("removeall %s", hx(p+"/nothing")), fmt.Sprintf("rename %s %s", hx(p), hx(p)),
				fmt.Sprintf("link %s %s", hx(p), hx(p)), fmt.Sprintf("symlink %s %s", hx(p), hx(p)), fmt.Sprintf("writefile %s - 420", hx(p)),
				fmt.Sprintf("openfile %s 1 0", hx(p)), fmt.Sprintf("openfile %s 2 0", hx(p)), fmt.Sprintf("openfile %s 1024 0", hx(p)), fmt.Sprintf("openfile %s 512 0", hx(p)),
				fmt.Sprintf("openfile %s 64 420", hx(p)), fmt.Sprintf("openfile %s 1052672 0", hx(p)))
		}
		// Sub of something that is not there / not a directory: an error, not a view (and not a panic)
		noop = append(noop, "sub "+hx("/missing"), "sub "+hx("/a/f"), "sub "+hx("/a/missing/deeper"))
		// through read-only handles of a file and of a directory
		for _, p := range []string{"/a/f", "/a/b"} {
			o := w.call("fs 0 openfile " + hx(p) + " 0 0")
			if strings.HasPrefix(o, "ok h ") {
				hd := strings.Fields(o)[2]
				size := 0
				if fi, err := base.Stat(p); err == nil {
					size = int(fi.Size())
				}
				for _, q := range []string{fmt.Sprintf("truncate %d", size), "write -", "writeat - 0", "chmod 420", "chown -1 -1", "sync"} {
					noop = append(noop, "file "+hd+" "+q)
				}
			}
		}
		var hist lib.History
		for _, q := range noop {
			l := "fs 0 " + q
			f := strings.Fields(l)
			before := rawDump(base)
			rw := w.call(l)
			after := rawDump(base)
			hist = append(hist, l)
			op := f[2]
			if op == "file" {
				op = "file." + f[4]
			}
			st.Count(op+"|"+lib.OutcomeClass(rw)+"|noop", op+"|noop|"+lib.OutcomeClass(rw))
			bad := ""
			switch {
			case rw == "panic" || rw == "hang":
				bad = "the call " + rw + "s"
			case before != after:
				bad = "the underlying file system changed"
			case f[2] == "openfile" && (f[4] == "0" || f[4] == "1052672"):
				// O_RDONLY (with O_CLOEXEC-like extra bits or not) is a read-only open
			case f[2] == "sub":
				if !strings.HasPrefix(rw, "err ") {
					bad = "Sub of a missing name or of a file returned a view"
				}
			case !permClass(rw) && rw != "err invalid" && rw != "err closed":
				bad = "a mutating call whose arguments ask for no change did not fail with a permission-class error"
			}
			if bad != "" && !seen["noop|"+op] {
				seen["noop|"+op] = true
				res.Mismatches = append(res.Mismatches, lib.Mismatch{Kind: "violation", Class: "rofs.noop." + op, What: "through RoFS: " + bad + " at " + l + " -> " + rw,
					History: append(lib.History{}, hist...), Impl: []string{rw, before, after}})
			}
		}
	}
	for k := 0; k < nh; k++ {
		_ = avfs.SetUMask(0o022)
		base := memfs.New()
		prefill(base, r)
		w := newFsOn(rofs.New(base))
		b := newFsOn(base) // reference answers on the same base
		g := &fsGen{r: r.Split(), impl: b, opts: fsGenOpts{symlinks: true, files: true, views: true, rdonly: true}, nviews: 1}
		var hist lib.History
		for i := 0; i < nl; i++ {
			l := g.next()
			if replay != nil {
				if i >= len(replay) {
					break
				}
				l = replay[i]
			}
			f := strings.Fields(l)
			if _, ok := w.views[atoiS(f[1])]; !ok {
				continue
			}
			before := rawDump(base)
			rw := w.call(l)
			after := rawDump(base)
			hist = append(hist, l)
			op := f[2]
			if op == "file" && len(f) > 4 {
				op = "file." + f[4]
			}
			st.Count(op+"|"+lib.OutcomeClass(rw), op+"|"+lib.OutcomeClass(rw))
			bad := ""
			switch {
			case rw == "panic" || rw == "hang":
				bad = "the call " + rw + "s"
			case before != after:
				bad = "the underlying file system changed"
			case mutatingCalls[f[2]] || (f[2] == "file" && len(f) > 4 && mutatingFileOps[f[4]]):
				if !permClass(rw) && rw != "err invalid" && rw != "err closed" {
					bad = "a mutating call did not fail with a permission-class error"
				}
			case f[2] == "openfile" && atoiS(f[4]) != 0:
				if !permClass(rw) {
					bad = "OpenFile with a flag other than O_RDONLY did not fail with a permission-class error"
				}
			case f[2] == "setuser" || f[2] == "setumask" || f[2] == "dump" || f[2] == "snap":
			default:
				rb := b.call(l)
				if rb != rw {
					bad = fmt.Sprintf("a read-only call returned %q where the underlying file system returns %q", rw, rb)
				}
				if strings.HasPrefix(rw, "ok h ") {
					g.open = append(g.open, atoiS(strings.Fields(rw)[2]))
				}
				if strings.HasPrefix(rw, "ok v ") {
					g.nviews = w.nextV
				}
			}
			if k < 1 && i < 6 {
				st.Sample(map[string]string{"line": l, "rofs": rw})
			}
			if bad != "" {
				sig := f[2] + "|" + bad[:min(20, len(bad))]
				if !seen[sig] {
					seen[sig] = true
					res.Mismatches = append(res.Mismatches, lib.Mismatch{Kind: "violation", Class: "rofs." + f[2], What: "through RoFS: " + bad + " at " + l + " -> " + rw,
						History: append(lib.History{}, hist...), Impl: []string{rw, before, after}})
				}
				break
			}
			if w.dead {
				break
			}
		}
		if replay != nil {
			break
		}
	}
	st.Fill(res)
	return res
}

var errInjectedWrap = errors.New("injected")

// corrFailfs: FailFS with no failure function ≟ its base (twin instance), and single-fault plans.
func corrFailfs(seed uint64, tier string, replay []string) *lib.Result {
	res := &lib.Result{Property: "C12",
		Rule: "random histories — and the bounded-exhaustive scenarios file-admin (all), dir-handle and namespace (every 7th) of small.go — through FailFS over MemFS, in lockstep with a twin MemFS driven directly: (1) no failure function: outcomes and node graphs equal after every call; (2) for every history every plan 'fail the k-th consulted primitive' (k over all consultations of the history, exhaustive per history): the failing call returns exactly the injected error and leaves the base untouched, earlier calls behave as on the base, and when the failed primitive is the first of its call all LATER calls (on handles too) behave as in the history without that call; (3) ReadOnlyFunc: the base never changes, for the history and for OpenFile with every flag combination of the generator's list on an existing file with content, a missing name and a directory; (6) with a failure function that refuses everything, every call of the history (issued on the state the history has reached) returns the injected error and leaves the base unchanged; (5) every composite call of the history (Create, WriteFile, ReadFile, ReadDir, MkdirTemp) that succeeds without faults is re-run with EVERY invocation of a primitive it is built on (Mkdir / OpenFile / FileWrite / FileRead / FileReadDir) made to fail: it must return the injected error, and leave the base unchanged when the primitive is its first; (4) announcement: with a second FailFS between the wrapper and the base, the primitives that reach the lower layer during each call (temp-name calls included) are exactly those shown to the upper failure function; a case is one call under one plan; distinct non-trivial = distinct (call kind, outcome, plan kind)"}
	st := lib.NewStats()
	nh, nl := 60, 25
	if tier == "thorough" {
		nh, nl = 600, 40
	}
	r := lib.NewRng(seed*2711 + 5)
	seen := map[string]bool{}
	report := func(cls, what string, hist lib.History, extra ...string) {
		if seen[cls] {
			return
		}
		seen[cls] = true
		res.Mismatches = append(res.Mismatches, lib.Mismatch{Kind: "violation", Class: cls, What: what, History: append(lib.History{}, hist...), Impl: extra})
	}
	// after the random histories: bounded-exhaustive scenarios of small.go (one level shallower), under every plan too
	var scripts []lib.History
	if replay == nil {
		for _, scn := range []string{"file-admin", "dir-handle", "namespace"} {
			sh, _ := smallHistoriesDepth(tier, scn, -1)
			for i, h := range sh {
				if scn != "file-admin" && i%7 != 0 {
					continue // a sample of the larger scenarios: every history is run under all its plans
				}
				scripts = append(scripts, h[1:len(h)-1])
			}
		}
	}
	for k := 0; k < nh+len(scripts); k++ {
		// generate the history on a scratch instance (state-aware), then replay it under each plan
		_ = avfs.SetUMask(0o022)
		gr := r.Split()
		scratch := memfs.New()
		prefill(scratch, lib.NewRng(1))
		sg := newFsOn(scratch)
		g := &fsGen{r: gr, impl: sg, opts: fsGenOpts{symlinks: true, files: true}, nviews: 1}
		var hist lib.History
		if replay != nil {
			hist = replay
		} else if k >= nh {
			hist = scripts[k-nh]
		} else {
			for i := 0; i < nl; i++ {
				l := g.next()
				f := strings.Fields(l)
				if f[2] == "mkdirtemp" || f[2] == "createtemp" || f[2] == "sub" {
					continue // random names / views: covered by the table obligations
				}
				o := sg.call(l)
				if strings.HasPrefix(o, "ok h ") {
					g.open = append(g.open, atoiS(strings.Fields(o)[2]))
				}
				hist = append(hist, l)
				if f[2] == "file" && len(f) > 4 && f[4] == "close" {
					// the handle is used once more after its Close: a Close that was refused leaves it open
					probe := fmt.Sprintf("fs 0 file %s %s", f[3], lib.Pick(gr, []string{"stat", "read 3", "seek 0 1"}))
					sg.call(probe)
					hist = append(hist, probe)
				}
			}
			// every history ends with a read of the file that is longer than ReadFile's first buffer
			hist = append(hist, "fs 0 readfile "+lib.Hex("/a/big"))
		}
		// (1) transparent run, counting consultations
		firstOfCall := false
		run := func(plan int, ro bool) (outs []string, dumps []string, consulted int, failedAt int, failedFn string) {
			base := memfs.New()
			prefill(base, lib.NewRng(1))
			ff := failfs.New(base)
			n := 0
			failedAt = -1
			cur := -1
			lastCall, inCall := -1, 0
			if ro {
				_ = ff.SetFailFunc(failfs.ReadOnlyFunc)
			} else {
				_ = ff.SetFailFunc(func(_ avfs.VFSBase, fn avfs.FnVFS, _ *failfs.FailParam) error {
					n++
					if cur != lastCall {
						lastCall, inCall = cur, 0
					}
					inCall++
					if n-1 == plan {
						failedAt = cur
						failedFn = fn.String()
						firstOfCall = inCall == 1
						return errInjectedWrap
					}
					return nil
				})
			}
			w := newFsOn(ff)
			for i, l := range hist {
				cur = i
				outs = append(outs, w.call(l))
				dumps = append(dumps, rawDump(base))
				if w.dead {
					break
				}
			}
			return outs, dumps, n, failedAt, failedFn
		}
		twin := memfs.New()
		prefill(twin, lib.NewRng(1))
		tw := newFsOn(twin)
		var touts, tdumps []string
		for _, l := range hist {
			touts = append(touts, tw.call(l))
			tdumps = append(tdumps, normMtime(rawDump(twin), map[int64]bool{}))
		}
		outs, dumps, total, _, _ := run(-1, false)
		for i := range outs {
			f := strings.Fields(hist[i])
			st.Count(f[2]+"|"+lib.OutcomeClass(outs[i])+"|none", f[2]+"|"+lib.OutcomeClass(outs[i])+"|none")
			if outs[i] != touts[i] || normMtime(dumps[i], map[int64]bool{}) != tdumps[i] {
				report("failfs.transparent."+f[2], fmt.Sprintf("FailFS without a failure function differs from its base at %q: %q vs %q", hist[i], outs[i], touts[i]), hist[:i+1], outs[i], touts[i])
				break
			}
		}
		if k < 1 {
			st.Sample(map[string]any{"history": hist[:min(6, len(hist))], "consultations": total})
		}
		// (2) every single-fault plan
		for p := 0; p < total; p++ {
			o2, d2, _, at, fn := run(p, false)
			if at < 0 || at >= len(o2) {
				continue
			}
			f := strings.Fields(hist[at])
			st.Count(f[2]+"|"+lib.OutcomeClass(o2[at])+"|fail:"+fn, f[2]+"|fail:"+fn)
			prev := ""
			if at > 0 {
				prev = d2[at-1]
			}
			// the failed primitive must have no effect: observable when it is the first primitive of its call
			if at > 0 && firstOfCall && d2[at] != prev {
				report("failfs.injected-effect."+fn, fmt.Sprintf("the call %q, made to fail at primitive %s, changed the base", hist[at], fn), hist[:at+1], o2[at])
			}
			if o2[at] == "hang" || o2[at] == "panic" {
				report("failfs.fault-"+o2[at]+"."+f[2]+"."+fn, fmt.Sprintf("with primitive %s made to fail the call %q %ss (every call returns)", fn, hist[at], o2[at]), hist[:at+1], o2[at])
			} else if !strings.Contains(o2[at], "injected") {
				kind := "violation"
				cls := "failfs.injected-swallowed." + f[2] + "." + fn
				if !seen[cls] {
					seen[cls] = true
					res.Mismatches = append(res.Mismatches, lib.Mismatch{Kind: "known", Class: cls,
						What:    fmt.Sprintf("primitive %s was made to fail during %q but the call returned %q", fn, hist[at], o2[at]),
						History: append(lib.History{}, hist[:at+1]...), Impl: []string{o2[at]}})
				}
				_ = kind
			}
			for i := 0; i < at; i++ {
				if o2[i] != touts[i] {
					report("failfs.before-fault", fmt.Sprintf("call %q before the injected fault differs from the base", hist[i]), hist[:i+1], o2[i], touts[i])
					break
				}
			}
			// a call refused at its FIRST primitive did not happen: everything after it (handles included) behaves as
			// in the history without that call
			if firstOfCall && strings.Contains(o2[at], "injected") {
				t2 := memfs.New()
				prefill(t2, lib.NewRng(1))
				tw2 := newFsOn(t2)
				for i, l := range hist {
					if i == at {
						continue
					}
					to := tw2.call(l)
					if i < at {
						continue
					}
					if i >= len(o2) {
						break
					}
					if o2[i] != to || normMtime(d2[i], map[int64]bool{}) != normMtime(rawDump(t2), map[int64]bool{}) {
						report("failfs.after-fault."+f[2]+"."+fn, fmt.Sprintf("the call %q was refused at its first primitive (%s) and yet had an effect: the later call %q answers %q, and %q in the history without the refused call", hist[at], fn, l, o2[i], to), hist[:i+1], fmt.Sprintf("plan: fail consultation %d", p), o2[i], to)
						break
					}
				}
			}
		}
		// (4) announcement: with a second FailFS between the wrapper and the base, every primitive that reaches the
		// lower layer during a call must have been shown to the failure function of the upper layer first (composite ids
		// are dropped: a composite either runs over the wrapper, so that its primitives are announced one by one, or is
		// forwarded whole, and then the lower layer sees only the composite id too). Temp-name calls are included here.
		{
			composite := map[string]bool{"CreateTemp": true, "MkdirAll": true, "MkdirTemp": true, "ReadDir": true, "ReadFile": true,
				"RemoveAll": true, "WalkDir": true, "WriteFile": true}
			base := memfs.New()
			prefill(base, lib.NewRng(1))
			var outerT, innerT []string
			inner := failfs.New(base)
			_ = inner.SetFailFunc(func(_ avfs.VFSBase, fn avfs.FnVFS, _ *failfs.FailParam) error {
				if !composite[fn.String()] {
					innerT = append(innerT, fn.String())
				}
				return nil
			})
			outer := failfs.New(inner)
			_ = outer.SetFailFunc(func(_ avfs.VFSBase, fn avfs.FnVFS, _ *failfs.FailParam) error {
				if !composite[fn.String()] {
					outerT = append(outerT, fn.String())
				}
				return nil
			})
			w := newFsOn(outer)
			h4 := append(lib.History{}, hist...)
			if replay == nil {
				dirs := []string{"", "/tmp", "/a", "/a/b", "/missing"}
				pats := []string{"t", "t*x", "*", ""}
				h4 = append(h4, fmt.Sprintf("fs 0 mkdirtemp %s %s ?", lib.Hex(lib.Pick(gr, dirs)), lib.Hex(lib.Pick(gr, pats))),
					fmt.Sprintf("fs 0 createtemp %s %s ?", lib.Hex(lib.Pick(gr, dirs)), lib.Hex(lib.Pick(gr, pats))))
			}
			for i, l := range h4 {
				no, ni := len(outerT), len(innerT)
				o := w.call(l)
				f := strings.Fields(l)
				st.Count(f[2]+"|"+lib.OutcomeClass(o)+"|announce", f[2]+"|announce|"+lib.OutcomeClass(o))
				po, pi := strings.Join(outerT[no:], ","), strings.Join(innerT[ni:], ",")
				if po != pi {
					report("failfs.unannounced-primitive."+f[2], fmt.Sprintf("during %q the primitives [%s] reached the base but the failure function was shown [%s]: a failure plan cannot make them fail", l, pi, po), h4[:i+1], o, po, pi)
					break
				}
				if w.dead {
					break
				}
			}
		}
		// (5) composites fail when a primitive they are BUILT ON is made to fail — the plan is stated by primitive, not
		// taken from the consultations observed (a composite that bypasses the wrapper consults nothing)
		{
			builtOn := map[string][]string{"mkdirtemp": {"Mkdir"}, "create": {"OpenFile"}, "writefile": {"OpenFile", "FileWrite"},
				"readfile": {"OpenFile", "FileRead"}, "readdir": {"OpenFile", "FileReadDir"}}
			h5 := append(lib.History{}, hist...)
			if replay == nil {
				h5 = append(h5, fmt.Sprintf("fs 0 mkdirtemp %s %s ?", lib.Hex(lib.Pick(gr, []string{"", "/tmp", "/a"})), lib.Hex(lib.Pick(gr, []string{"t", "t*x", "*"}))))
			}
			for i, l := range h5 {
				f := strings.Fields(l)
				prims, ok := builtOn[f[2]]
				if !ok {
					continue
				}
				for _, prim := range prims {
					base := memfs.New()
					prefill(base, lib.NewRng(1))
					ff := failfs.New(base)
					armed, hit := false, false
					_ = ff.SetFailFunc(func(_ avfs.VFSBase, fn avfs.FnVFS, _ *failfs.FailParam) error {
						if armed && fn.String() == prim {
							hit = true
							return errInjectedWrap
						}
						return nil
					})
					w := newFsOn(ff)
					for _, pl := range h5[:i] {
						w.call(pl)
					}
					if w.dead {
						break
					}
					// would the call succeed, and does it use the primitive at all, without the fault? (twin instance)
					base2 := memfs.New()
					prefill(base2, lib.NewRng(1))
					used := false
					ff2 := failfs.New(base2)
					arm2 := false
					_ = ff2.SetFailFunc(func(_ avfs.VFSBase, fn avfs.FnVFS, _ *failfs.FailParam) error {
						if arm2 && fn.String() == prim {
							used = true
						}
						return nil
					})
					w2 := newFsOn(ff2)
					for _, pl := range h5[:i] {
						w2.call(pl)
					}
					arm2 = true
					free := w2.call(l)
					before := rawDump(base)
					armed = true
					o := w.call(l)
					after := rawDump(base)
					st.Count(f[2]+"|"+lib.OutcomeClass(o)+"|fail-all:"+prim, f[2]+"|fail-all:"+prim+"|"+lib.OutcomeClass(o))
					if !strings.HasPrefix(free, "ok") {
						continue // the call fails on its own before or without reaching the primitive
					}
					mustUse := prim == "Mkdir" || prim == "OpenFile" || (prim == "FileWrite" && f[4] != "-") || used
					if !mustUse {
						continue
					}
					if !strings.Contains(o, "injected") {
						report("failfs.composite-ignores-primitive."+f[2]+"."+prim, fmt.Sprintf("%q succeeds without faults (%q); with every %s made to fail it returns %q (fault consulted: %v): the composite does not fail when a primitive it is built on fails", l, free, prim, o, hit), h5[:i+1], o, free)
					} else if before != after && (prim == "Mkdir" || prim == "OpenFile") {
						report("failfs.composite-fault-effect."+f[2]+"."+prim, fmt.Sprintf("%q made to fail at its first primitive %s changed the base", l, prim), h5[:i+1], o)
					}
				}
			}
		}
		// (6) the failure function refuses EVERYTHING: every call that goes through the file system or one of its handles
		// returns the injected error (whatever its arguments: empty data, unchanged sizes, …) and the base never changes
		{
			base := memfs.New()
			prefill(base, lib.NewRng(1))
			ff := failfs.New(base)
			w := newFsOn(ff)
			refuse := false
			_ = ff.SetFailFunc(func(_ avfs.VFSBase, _ avfs.FnVFS, _ *failfs.FailParam) error {
				if refuse {
					return errInjectedWrap
				}
				return nil
			})
			for i, l := range hist {
				f := strings.Fields(l)
				op := f[2]
				if op == "file" && len(f) > 4 {
					op = "file." + f[4]
				}
				// the call under "refuse everything" on a copy of the state reached so far: replayed prefix, then refused call
				before := rawDump(base)
				refuse = true
				o := w.call(l)
				refuse = false
				after := rawDump(base)
				st.Count(op+"|"+lib.OutcomeClass(o)+"|refuse-all", op+"|refuse-all|"+lib.OutcomeClass(o))
				exempt := op == "getwd" || op == "setumask" || op == "setuser" || op == "file.name" || op == "dump" || op == "snap" || op == "viewinfo" ||
					o == "err closed"
				if f[2] == "file" && len(f) > 3 {
					if _, open := w.handles[atoiS(f[3])]; !open {
						exempt = true // the history refers to a handle that was never opened (its open failed): nothing is called
					}
				}
				if before != after {
					report("failfs.refuse-all-effect."+op, fmt.Sprintf("with a failure function that refuses everything the call %q changed the base (%q)", l, o), hist[:i+1], o)
				} else if !exempt && !strings.Contains(o, "injected") && o != "panic" && o != "hang" {
					cls := "failfs.refuse-all-ignored." + op
					if !seen[cls] {
						seen[cls] = true
						res.Mismatches = append(res.Mismatches, lib.Mismatch{Kind: "known", Class: cls,
							What:    fmt.Sprintf("with a failure function that refuses everything the call %q returned %q instead of the injected error", l, o),
							History: append(lib.History{}, hist[:i+1]...), Impl: []string{o}})
					}
				}
				// then really perform the call so that the next one finds the state of the history
				w.call(l)
				if w.dead {
					break
				}
			}
		}
		// (3) read-only plan
		o3, d3, _, _, _ := run(-1, true)
		for i := range o3 {
			f := strings.Fields(hist[i])
			st.Count(f[2]+"|"+lib.OutcomeClass(o3[i])+"|readonly", f[2]+"|readonly|"+lib.OutcomeClass(o3[i]))
			if i > 0 && d3[i] != d3[i-1] {
				report("failfs.readonly-changed."+f[2], fmt.Sprintf("with ReadOnlyFunc the call %q changed the base (%q)", hist[i], o3[i]), hist[:i+1], o3[i])
				break
			}
		}
		if k == 0 && replay == nil {
			// (3') ReadOnlyFunc and EVERY flag combination of OpenFile, on an existing file with content and on a
			// missing name: the base never changes
			base := memfs.New()
			prefill(base, lib.NewRng(1))
			ff := failfs.New(base)
			_ = ff.SetFailFunc(failfs.ReadOnlyFunc)
			w := newFsOn(ff)
			var h3 lib.History
			for _, fl := range openFlags {
				for _, pth := range []string{"/a/big", "/a/newname", "/a/b"} {
					l := fmt.Sprintf("fs 0 openfile %s %d 420", lib.Hex(pth), fl)
					before := rawDump(base)
					o := w.call(l)
					h3 = append(h3, l)
					st.Count("openfile|"+lib.OutcomeClass(o)+"|readonly-flags", fmt.Sprintf("openfile|readonly|%d|%s", fl, lib.OutcomeClass(o)))
					if rawDump(base) != before {
						report("failfs.readonly-changed.openfile-flags", fmt.Sprintf("with ReadOnlyFunc %q (flag %#x) changed the base (%q)", l, fl, o), h3, o)
					}
				}
			}
		}
		if replay != nil {
			break
		}
	}
	st.Fill(res)
	return res
}
