package main

import (
	"bufio"
	"encoding/json"
	"os"
	"path/filepath"
	"regexp"
	"strings"
)

// The ledger of recorded findings (known_findings.jsonl next to bin/): used only to decide whether a divergence found
// by an oracle SEARCH is a new explanation of a model/implementation disagreement or a recorded one (which explains
// nothing new). The verdict on every reported class stays with bin/check.
var ledgerRes []*regexp.Regexp
var ledgerClasses = map[string]bool{}
var ledgerLoaded bool

func loadLedger() {
	ledgerLoaded = true
	p := os.Getenv("VERIF_LEDGER")
	if p == "" {
		exe, _ := os.Executable()
		p = filepath.Join(filepath.Dir(filepath.Dir(exe)), "known_findings.jsonl")
		if _, err := os.Stat(p); err != nil {
			p = "/verif/known_findings.jsonl"
		}
	}
	f, err := os.Open(p)
	if err != nil {
		return
	}
	defer f.Close()
	sc := bufio.NewScanner(f)
	sc.Buffer(make([]byte, 1<<20), 1<<24)
	for sc.Scan() {
		var e struct {
			Status  string `json:"status"`
			Class   string `json:"class"`
			ClassRe string `json:"class_re"`
		}
		if json.Unmarshal(sc.Bytes(), &e) != nil || e.Status != "open" {
			continue
		}
		ledgerClasses[e.Class] = true
		if e.ClassRe != "" {
			if re, err := regexp.Compile("^(?:" + e.ClassRe + ")$"); err == nil {
				ledgerRes = append(ledgerRes, re)
			}
		}
	}
}

func ledgerKnown(cls string) bool {
	if !ledgerLoaded {
		loadLedger()
	}
	alts := []string{cls}
	if strings.HasPrefix(cls, "orefa.") {
		alts = append(alts, "kernel."+cls[len("orefa."):])
	}
	for _, c := range alts {
		if ledgerClasses[c] {
			return true
		}
		for _, re := range ledgerRes {
			if re.MatchString(c) {
				return true
			}
		}
	}
	return false
}
