package main

import (
	"fmt"
	"strconv"
	"strings"

	"github.com/avfs/avfs"
	"github.com/avfs/avfs/idm/memidm"

	"verifharness/lib"
)

func init() { parts["idm"] = corrIdm }

func idmErr(err error) string {
	switch err.(type) {
	case avfs.AlreadyExistsGroupError:
		return "err AlreadyExistsGroup"
	case avfs.AlreadyExistsUserError:
		return "err AlreadyExistsUser"
	case avfs.UnknownGroupError:
		return "err UnknownGroup"
	case avfs.UnknownUserError:
		return "err UnknownUser"
	case avfs.UnknownGroupIdError:
		return "err UnknownGroupId"
	case avfs.UnknownUserIdError:
		return "err UnknownUserId"
	}
	return "err other:" + fmt.Sprintf("%T", err)
}

func showGrp(g avfs.GroupReader, err error) string {
	if err != nil {
		return idmErr(err)
	}
	return fmt.Sprintf("ok g %s %d", lib.Hex(g.Name()), g.Gid())
}

func showUsr(u avfs.UserReader, err error) string {
	if err != nil {
		return idmErr(err)
	}
	return fmt.Sprintf("ok u %s %d %d", lib.Hex(u.Name()), u.Uid(), u.Gid())
}

// idmImpl interprets `idm ...` lines on the real MemIdm.
func idmImpl(h lib.History) []string {
	var idm *memidm.MemIdm
	out := make([]string, len(h))
	for i, line := range h {
		f := strings.Fields(line)
		if len(f) < 2 || (f[0] != "idm" && f[0] != "idmspec") {
			out[i] = "bad-op"
			continue
		}
		func() {
			defer func() {
				if r := recover(); r != nil {
					out[i] = "panic"
				}
			}()
			a := f[2:]
			if f[1] == "new" {
				idm = memidm.New()
				out[i] = "ok"
				return
			}
			if idm == nil {
				out[i] = "bad-op"
				return
			}
			switch f[1] {
			case "dump":
				out[i] = idm.VerifDump()
			case "addgroup":
				out[i] = showGrp(idm.AddGroup(lib.UnHex(a[0])))
			case "adduser":
				out[i] = showUsr(idm.AddUser(lib.UnHex(a[0]), lib.UnHex(a[1])))
			case "delgroup":
				if err := idm.DelGroup(lib.UnHex(a[0])); err != nil {
					out[i] = idmErr(err)
				} else {
					out[i] = "ok"
				}
			case "deluser":
				if err := idm.DelUser(lib.UnHex(a[0])); err != nil {
					out[i] = idmErr(err)
				} else {
					out[i] = "ok"
				}
			case "lookupgroup":
				out[i] = showGrp(idm.LookupGroup(lib.UnHex(a[0])))
			case "lookupgroupid":
				n, _ := strconv.Atoi(a[0])
				out[i] = showGrp(idm.LookupGroupId(n))
			case "lookupuser":
				out[i] = showUsr(idm.LookupUser(lib.UnHex(a[0])))
			case "lookupuserid":
				n, _ := strconv.Atoi(a[0])
				out[i] = showUsr(idm.LookupUserId(n))
			case "isadmin":
				u, err := idm.LookupUser(lib.UnHex(a[0]))
				if err != nil {
					out[i] = idmErr(err)
				} else {
					out[i] = fmt.Sprintf("ok b %v", u.IsAdmin())
				}
			default:
				out[i] = "bad-op"
			}
		}()
	}
	return out
}

// idmExhaustive: EVERY sequence of up to 4 (thorough 5) mutators over the names {root, a, b}, each followed by a full
// observation (the four maps, every lookup by name and by id, the administrator predicate).
func idmExhaustive(tier string) []lib.History {
	hx := lib.Hex
	var alpha, obs []string
	for _, n := range []string{"a", "b", "root"} {
		alpha = append(alpha, "idm addgroup "+hx(n), "idm delgroup "+hx(n), "idm deluser "+hx(n))
		obs = append(obs, "idm lookupgroup "+hx(n), "idm lookupuser "+hx(n), "idm isadmin "+hx(n))
	}
	for _, ug := range [][2]string{{"a", "a"}, {"a", "root"}, {"b", "a"}, {"a", "b"}, {"root", "root"}, {"b", "b"}} {
		alpha = append(alpha, "idm adduser "+hx(ug[0])+" "+hx(ug[1]))
	}
	obs = append(obs, "idm dump")
	for _, id := range []int{0, 1000, 1001, 1002, 1003, 1004} {
		obs = append(obs, fmt.Sprintf("idm lookupgroupid %d", id), fmt.Sprintf("idm lookupuserid %d", id))
	}
	depth := 4
	if tier == "thorough" {
		depth = 5
	}
	first := "idm new " + hx("root") + " " + hx("root")
	var hs []lib.History
	var rec func(seq []string, d int)
	rec = func(seq []string, d int) {
		if len(seq) > 0 {
			h := append(lib.History{first}, seq...)
			hs = append(hs, append(h, obs...))
		}
		if d == 0 {
			return
		}
		for _, a := range alpha {
			rec(append(append([]string{}, seq...), a), d-1)
		}
	}
	rec(nil, depth)
	return hs
}

func idmGen(r *lib.Rng, n int) lib.History {
	names := []string{"root", "a", "b", "c", ""}
	h := lib.History{"idm new " + lib.Hex("root") + " " + lib.Hex("root")}
	ids := []int{0, 1000, 1001, 1002, 1003, 1004, -1}
	for i := 0; i < n; i++ {
		nm := lib.Hex(lib.Pick(r, names))
		switch r.Intn(12) {
		case 0, 1:
			h = append(h, "idm addgroup "+nm)
		case 2, 3:
			h = append(h, "idm adduser "+nm+" "+lib.Hex(lib.Pick(r, names)))
		case 4:
			h = append(h, "idm delgroup "+nm)
		case 5:
			h = append(h, "idm deluser "+nm)
		case 6:
			h = append(h, "idm lookupgroup "+nm)
		case 7:
			h = append(h, fmt.Sprintf("idm lookupgroupid %d", lib.Pick(r, ids)))
		case 8:
			h = append(h, "idm lookupuser "+nm)
		case 9:
			h = append(h, fmt.Sprintf("idm lookupuserid %d", lib.Pick(r, ids)))
		case 10:
			h = append(h, "idm isadmin "+nm)
		case 11:
			h = append(h, "idm dump")
		}
	}
	return h
}

// toSpec rewrites a history to run on the Lean two-map spec (property oracle).
func toSpec(h lib.History) lib.History {
	var o lib.History
	for _, l := range h {
		if strings.HasPrefix(l, "idm ") {
			o = append(o, "idmspec "+l[4:])
		} else {
			o = append(o, l)
		}
	}
	return o
}

func corrIdm(seed uint64, tier string, replay []string) *lib.Result {
	res := &lib.Result{Property: "C15",
		Rule: "EVERY sequence of up to 4 (thorough 5) mutators AddGroup / DelGroup / DelUser / AddUser over the names {root, a, b}, each followed by the dump of the four maps, every lookup by name and by id and the administrator predicate; plus random histories of the 9 idm operations (+dump of the four maps via the verif hook) over names {root,a,b,c,\"\"} and ids {0,1000..1004,-1}; a case is one call; distinct non-trivial = distinct (op kind, outcome, #groups, #users bucket) tuples"}
	st := lib.NewStats()
	var hs []lib.History
	if replay != nil {
		hs = []lib.History{replay}
	} else {
		r := lib.NewRng(seed)
		nh, nl := 3000, 40
		if tier == "thorough" {
			nh, nl = 40000, 60
		}
		for i := 0; i < nh; i++ {
			hs = append(hs, idmGen(r.Split(), nl))
		}
		hs = append(hs, idmExhaustive(tier)...)
	}
	model, err := lib.ModelExecAll(hs)
	if err != nil {
		res.Notes = append(res.Notes, "driver failure: "+err.Error())
		res.Mismatches = append(res.Mismatches, lib.Mismatch{Kind: "unproved", Class: "corr-impl idm", What: "driver failure " + err.Error()})
		return res
	}
	seen := map[string]bool{}
	shrinks := 0
	for k, h := range hs {
		impl := idmImpl(h)
		for i, l := range h {
			f := strings.Fields(l)
			key := f[1] + "|" + lib.OutcomeClass(impl[i])
			st.Count(key, key+fmt.Sprintf("|%d", i/8))
		}
		if k < 2 {
			st.Sample(map[string]any{"history": h[:min(len(h), 8)], "impl": impl[:min(len(h), 8)]})
		}
		if d := lib.FirstDiff(impl, model[k]); d >= 0 {
			if shrinks++; shrinks > 40 {
				break // enough representatives: every further disagreeing history would be minimised at the cost of many driver runs
			}
			cut := h[:d+1]
			small := lib.Shrink(cut, 1, func(c lib.History) bool { return lib.FirstDiff(idmImpl(c), lib.ModelExec(c)) >= 0 })
			si, sm := idmImpl(small), lib.ModelExec(small)
			sig := small[len(small)-1] + "|" + si[len(si)-1] + "|" + sm[len(sm)-1]
			if seen[sig] {
				continue
			}
			seen[sig] = true
			// search: does the implementation break the property's own oracle (the two-map spec)?
			spec := lib.ModelExec(toSpec(small))
			// dump lines are model-internal: compare only non-dump lines against the spec
			viol := -1
			for i := range small {
				if strings.HasSuffix(small[i], " dump") {
					continue
				}
				if si[i] != spec[i] {
					viol = i
					break
				}
			}
			mm := lib.Mismatch{History: small, Impl: si, Model: sm, Expected: spec, Index: lib.FirstDiff(si, sm), Class: "corr-impl idm"}
			if viol >= 0 {
				mm.Kind = "violation"
				mm.Index = viol
				mm.What = fmt.Sprintf("MemIdm answers %q where the two-map reference answers %q at call %q", si[viol], spec[viol], small[viol])
			} else {
				mm.Kind = "unproved"
				mm.What = "implementation and Lean model differ (theorems C15_* no longer speak about this code); spec agrees with impl on this history"
			}
			res.Mismatches = append(res.Mismatches, mm)
			if len(res.Mismatches) >= 5 {
				break
			}
		}
	}
	st.Fill(res)
	return res
}
