// race: free-running parallel stress of the documented concurrent use (C08 search engine, also C06/C07 smoke):
// per-goroutine Sub views of one MemFS with different users, one shared OrefaFS, one shared MemIdm, shared and
// distinct handles. Built with -race by bin/check; a race report (exit status 66) is the replay.
//
// usage: race [-seed N] [-secs S] [-procs P] [-only memfs|orefafs|memidm] [-fn a,b]  (fn: restrict to two call kinds)
package main

import (
	"flag"
	"fmt"
	"os"
	"strings"
	"sync"
	"time"

	"github.com/avfs/avfs"
	"github.com/avfs/avfs/idm/memidm"
	"github.com/avfs/avfs/vfs/memfs"
	"github.com/avfs/avfs/vfs/orefafs"

	"verifharness/lib"
)

type user struct {
	n    string
	u, g int
}

func (u *user) Name() string  { return u.n }
func (u *user) Uid() int      { return u.u }
func (u *user) Gid() int      { return u.g }
func (u *user) IsAdmin() bool { return u.u == 0 }

var names = []string{"a", "b", "c"}

func randPath(r *lib.Rng) string {
	n := r.Intn(3) + 1
	p := "/tmp"
	for i := 0; i < n; i++ {
		p += "/" + lib.Pick(r, names)
	}
	return p
}

func fsOp(vfs avfs.VFS, r *lib.Rng, allow map[string]bool, hs *[]avfs.File, symlinks bool) {
	ops := []string{"mkdir", "mkdirall", "writefile", "readfile", "remove", "removeall", "rename", "link", "stat", "lstat", "readdir", "chmod", "truncate", "open", "fileop", "chtimes", "symlink", "readlink", "chown", "lchown"}
	op := lib.Pick(r, ops)
	if len(allow) > 0 && !allow[op] {
		return
	}
	defer func() { _ = recover() }()
	p, q := randPath(r), randPath(r)
	switch op {
	case "mkdir":
		_ = vfs.Mkdir(p, 0o777)
	case "mkdirall":
		_ = vfs.MkdirAll(p, 0o777)
	case "writefile":
		_ = vfs.WriteFile(p, []byte("data"), 0o666)
	case "readfile":
		_, _ = vfs.ReadFile(p)
	case "remove":
		_ = vfs.Remove(p)
	case "removeall":
		_ = vfs.RemoveAll(p)
	case "rename":
		_ = vfs.Rename(p, q)
	case "link":
		_ = vfs.Link(p, q)
	case "stat":
		_, _ = vfs.Stat(p)
	case "lstat":
		_, _ = vfs.Lstat(p)
	case "readdir":
		_, _ = vfs.ReadDir(p)
	case "chmod":
		_ = vfs.Chmod(p, 0o755)
	case "chown":
		_ = vfs.Chown(p, 0, 0)
	case "lchown":
		_ = vfs.Lchown(p, r.Intn(2)*1000, r.Intn(2)*1000)
	case "chtimes":
		_ = vfs.Chtimes(p, time.Now(), time.Now())
	case "truncate":
		_ = vfs.Truncate(p, int64(r.Intn(8)))
	case "symlink":
		if symlinks {
			_ = vfs.Symlink(q, p)
		}
	case "readlink":
		if symlinks {
			_, _ = vfs.Readlink(p)
		}
	case "open":
		f, err := vfs.OpenFile(p, lib.Pick(r, []int{0, 2, 0x42, 0x442}), 0o666)
		if err == nil {
			if len(*hs) < 4 {
				*hs = append(*hs, f)
			} else {
				_ = f.Close()
			}
		}
	case "fileop":
		if len(*hs) == 0 {
			return
		}
		f := lib.Pick(r, *hs)
		switch r.Intn(16) {
		case 0:
			_, _ = f.Read(make([]byte, 4))
		case 1:
			_, _ = f.Write([]byte("xy"))
		case 2:
			_, _ = f.Seek(int64(r.Intn(6)), 0)
		case 8:
			_, _ = f.Seek(int64(r.Intn(3))-2, r.Intn(3)) // every whence, negative offsets too
		case 9:
			_ = f.Truncate(int64(r.Intn(12)))
		case 10:
			_, _ = f.WriteString("grow")
		case 11:
			_ = f.Sync()
		case 12:
			_, _ = f.Readdirnames(-1)
		case 13:
			_ = f.Chown(r.Intn(2)*1000, r.Intn(2)*1000)
		case 14:
			_ = f.Name()
			_ = f.Fd()
		case 15:
			_ = f.Chdir()
		case 3:
			_, _ = f.ReadAt(make([]byte, 2), 1)
		case 4:
			_, _ = f.WriteAt([]byte("z"), 2)
		case 5:
			_, _ = f.Stat()
		case 6:
			_, _ = f.ReadDir(1)
		case 7:
			_ = f.Chmod(0o700)
		}
	}
}

func main() {
	seed := flag.Uint64("seed", 1, "seed")
	secs := flag.Float64("secs", 5, "duration")
	procs := flag.Int("procs", 8, "goroutines per target")
	only := flag.String("only", "", "memfs|orefafs|memidm")
	fn := flag.String("fn", "", "restrict file-system calls to these kinds (comma separated)")
	flag.Parse()
	allow := map[string]bool{}
	for _, x := range strings.Split(*fn, ",") {
		if x != "" {
			allow[x] = true
		}
	}
	deadline := time.Now().Add(time.Duration(*secs * float64(time.Second)))
	var wg sync.WaitGroup
	var ops int64
	var mu sync.Mutex
	count := func(n int64) { mu.Lock(); ops += n; mu.Unlock() }
	if *only == "" || *only == "memfs" {
		mem := memfs.New()
		_ = mem.MkdirAll("/tmp/a/b", 0o777)
		var shared []avfs.File
		if f, err := mem.OpenFile("/tmp/shared", 0x42, 0o666); err == nil {
			shared = append(shared, f)
		}
		for g := 0; g < *procs; g++ {
			wg.Add(1)
			go func(g int) {
				defer wg.Done()
				r := lib.NewRng(*seed*1000 + uint64(g))
				v, err := mem.Sub("/")
				if err != nil {
					return
				}
				_ = v.SetUser(&user{fmt.Sprint("u", g), g % 3 * 1000, g % 2 * 1000})
				hs := append([]avfs.File{}, shared...)
				var n int64
				for time.Now().Before(deadline) {
					fsOp(v, r, allow, &hs, true)
					n++
				}
				count(n)
			}(g)
		}
	}
	if *only == "" || *only == "orefafs" {
		ore := orefafs.New()
		_ = ore.MkdirAll("/tmp/a/b", 0o777)
		var shared []avfs.File
		if f, err := ore.OpenFile("/tmp/shared", 0x42, 0o666); err == nil {
			shared = append(shared, f)
		}
		for g := 0; g < *procs; g++ {
			wg.Add(1)
			go func(g int) {
				defer wg.Done()
				r := lib.NewRng(*seed*2000 + uint64(g))
				hs := append([]avfs.File{}, shared...)
				var n int64
				for time.Now().Before(deadline) {
					fsOp(ore, r, allow, &hs, false)
					n++
				}
				count(n)
			}(g)
		}
	}
	if *only == "" || *only == "memidm" {
		idm := memidm.New()
		for g := 0; g < *procs; g++ {
			wg.Add(1)
			go func(g int) {
				defer wg.Done()
				r := lib.NewRng(*seed*3000 + uint64(g))
				var n int64
				for time.Now().Before(deadline) {
					nm := lib.Pick(r, []string{"root", "a", "b", "c"})
					switch r.Intn(8) {
					case 0:
						_, _ = idm.AddGroup(nm)
					case 1:
						_, _ = idm.AddUser(nm, lib.Pick(r, []string{"root", "a", "b"}))
					case 2:
						_ = idm.DelGroup(nm)
					case 3:
						_ = idm.DelUser(nm)
					case 4:
						_, _ = idm.LookupGroup(nm)
					case 5:
						_, _ = idm.LookupUser(nm)
					case 6:
						_, _ = idm.LookupGroupId(1000 + r.Intn(5))
					case 7:
						_, _ = idm.LookupUserId(1000 + r.Intn(5))
					}
					n++
				}
				count(n)
			}(g)
		}
	}
	done := make(chan struct{})
	go func() { wg.Wait(); close(done) }()
	select {
	case <-done:
	case <-time.After(time.Duration(*secs*float64(time.Second)) + 20*time.Second):
		fmt.Println("DEADLOCK-OR-HANG: goroutines did not finish 20 s after the deadline")
		os.Exit(3)
	}
	fmt.Printf("ok ops=%d\n", ops)
}
