// lin: linearizability search engine for C06. Small concurrent programs (2-3 goroutines, 1-2 namespace calls each, on
// overlapping names of a small tree) are started together, free-running, many rounds; the results of the calls and
// the final tree are then looked up among the outcomes of EVERY sequential interleaving of the same calls (program
// order kept) run on fresh instances of the same file system. An outcome no interleaving produces is a failure: the
// program, the observed outcome and the sequential outcomes are the replay.
//
// Program classes:
//
//	proved : Mkdir / exclusive create / Remove / Lstat on leaf names of directories nothing removes or renames — the
//	         calls covered by Avfs/Conc/Lin.lean (MemFS: two-phase theorem; OrefaFS Mkdir/Remove: one critical section).
//	         A failure here contradicts a theorem's tie to the code: VIOLATION with the program as failing input.
//	known  : programs with Link / Symlink / Rename / RemoveAll / calls below a directory another call removes — recorded
//	         findings; a failure is reported under its class and matched with the ledger by bin/check.
//
// usage: lin -fs memfs|orefafs [-mode proved|known|all] [-rounds N] [-seed S] [-only kind,kind] [-prog "k:/p[:/q];…|…"]
package main

import (
	"encoding/json"
	"flag"
	"fmt"
	"io/fs"
	"os"
	"runtime"
	"sort"
	"strings"
	"sync"
	"sync/atomic"
	"time"

	"github.com/avfs/avfs"
	"github.com/avfs/avfs/idm/memidm"
	"github.com/avfs/avfs/vfs/memfs"
	"github.com/avfs/avfs/vfs/orefafs"

	"verifharness/lib"
)

type call struct {
	Kind string `json:"kind"`
	P    string `json:"p"`
	Q    string `json:"q,omitempty"`
}

func (c call) String() string {
	if c.Q != "" {
		return c.Kind + ":" + c.P + ":" + c.Q
	}
	return c.Kind + ":" + c.P
}

type program [][]call

func (p program) String() string {
	var ts []string
	for _, t := range p {
		var cs []string
		for _, c := range t {
			cs = append(cs, c.String())
		}
		ts = append(ts, strings.Join(cs, ";"))
	}
	return strings.Join(ts, "|")
}

func parseProgram(s string) program {
	var p program
	for _, t := range strings.Split(s, "|") {
		var cs []call
		for _, c := range strings.Split(t, ";") {
			f := strings.Split(c, ":")
			k := call{Kind: f[0]}
			if len(f) > 1 {
				k.P = f[1]
			}
			if len(f) > 2 {
				k.Q = f[2]
			}
			cs = append(cs, k)
		}
		p = append(p, cs)
	}
	return p
}

// proved: every call of the program is one of the calls covered by the theorems
func (p program) proved(fsn string) bool {
	ok := map[string]bool{}
	for _, c := range provedCalls(fsn) {
		ok[c.String()] = true
	}
	for _, t := range p {
		for _, c := range t {
			if !ok[c.String()] {
				return false
			}
		}
	}
	return true
}

// class of a program: the sorted set of its call kinds ("known." marks a program outside the proved calls)
func (p program) class(fsn string) string {
	set := map[string]bool{}
	for _, t := range p {
		for _, c := range t {
			set[c.Kind] = true
		}
	}
	if !p.proved(fsn) {
		fsn += ".known"
	}
	var ks []string
	for k := range set {
		ks = append(ks, k)
	}
	sort.Strings(ks)
	return "lin." + fsn + "." + strings.Join(ks, "+")
}

func errName(err error) string {
	if err == nil {
		return "ok"
	}
	s := err.Error()
	for _, k := range []string{"file exists", "no such file or directory", "directory not empty", "not a directory", "is a directory",
		"invalid argument", "permission denied", "operation not permitted", "too many levels"} {
		if strings.Contains(s, k) {
			return strings.ReplaceAll(k, " ", "-")
		}
	}
	return "err:" + s
}

func newFS(fsn string) any {
	if fsn == "memidm" {
		idm := memidm.New()
		_, _ = idm.AddGroup("g0")
		_, _ = idm.AddUser("u0", "g0")
		return idm
	}
	var v avfs.VFS
	if fsn == "orefafs" {
		v = orefafs.New()
	} else {
		v = memfs.New()
	}
	_ = v.MkdirAll("/d/x", 0o777)
	_ = v.MkdirAll("/e", 0o777)
	_ = v.MkdirAll("/s/t", 0o777) // a directory the `known` programs remove or rename
	_ = v.WriteFile("/d/f", []byte("f"), 0o666)
	_ = v.Link("/d/f", "/e/g")
	_ = v.WriteFile("/e/h", []byte("h"), 0o666)
	return v
}

func view(v any) any {
	if m, ok := v.(*memfs.MemFS); ok {
		if s, err := m.Sub("/"); err == nil {
			return s
		}
	}
	return v
}

// idmCall: the MemIdm calls; a successful Add reports the id it handed out
func idmCall(idm *memidm.MemIdm, c call) string {
	errN := func(err error) string {
		switch err.(type) {
		case nil:
			return "ok"
		case avfs.AlreadyExistsGroupError, avfs.AlreadyExistsUserError:
			return "exists"
		case avfs.UnknownGroupError, avfs.UnknownUserError, avfs.UnknownGroupIdError, avfs.UnknownUserIdError:
			return "unknown"
		}
		return "err:" + err.Error()
	}
	switch c.Kind {
	case "addgroup":
		g, err := idm.AddGroup(c.P)
		if err != nil {
			return errN(err)
		}
		return fmt.Sprintf("ok:%d", g.Gid())
	case "delgroup":
		return errN(idm.DelGroup(c.P))
	case "adduser":
		u, err := idm.AddUser(c.P, c.Q)
		if err != nil {
			return errN(err)
		}
		return fmt.Sprintf("ok:%d:%d", u.Uid(), u.Gid())
	case "deluser":
		return errN(idm.DelUser(c.P))
	case "lookupgroup":
		g, err := idm.LookupGroup(c.P)
		if err != nil {
			return errN(err)
		}
		return fmt.Sprintf("ok:%d", g.Gid())
	case "lookupuser":
		u, err := idm.LookupUser(c.P)
		if err != nil {
			return errN(err)
		}
		return fmt.Sprintf("ok:%d:%d", u.Uid(), u.Gid())
	case "lookupgid":
		g, err := idm.LookupGroupId(atoi(c.P))
		if err != nil {
			return errN(err)
		}
		return "ok:" + g.Name()
	case "lookupuid":
		u, err := idm.LookupUserId(atoi(c.P))
		if err != nil {
			return errN(err)
		}
		return "ok:" + u.Name()
	}
	return "bad-call"
}

func atoi(s string) int {
	n := 0
	for _, c := range s {
		n = n*10 + int(c-'0')
	}
	return n
}

func doCall(sys any, c call) (res string) {
	defer func() {
		if r := recover(); r != nil {
			res = "panic"
		}
	}()
	if idm, ok := sys.(*memidm.MemIdm); ok {
		return idmCall(idm, c)
	}
	v := sys.(avfs.VFS)
	switch c.Kind {
	case "mkdir":
		return errName(v.Mkdir(c.P, 0o777))
	case "createexcl":
		f, err := v.OpenFile(c.P, os.O_CREATE|os.O_EXCL|os.O_RDWR, 0o666)
		if err == nil {
			_ = f.Close()
		}
		return errName(err)
	case "remove":
		return errName(v.Remove(c.P))
	case "lstat":
		fi, err := v.Lstat(c.P)
		if err != nil {
			return errName(err)
		}
		if fi.IsDir() {
			return "ok:dir"
		}
		return "ok:file"
	case "link":
		return errName(v.Link(c.P, c.Q))
	case "symlink":
		return errName(v.Symlink(c.P, c.Q))
	case "rename":
		return errName(v.Rename(c.P, c.Q))
	case "removeall":
		return errName(v.RemoveAll(c.P))
	case "mkdirall":
		return errName(v.MkdirAll(c.P, 0o777))
	case "readdir":
		_, err := v.ReadDir(c.P)
		return errName(err)
	case "readfile":
		_, err := v.ReadFile(c.P)
		return errName(err)
	case "writefile":
		return errName(v.WriteFile(c.P, []byte("w"), 0o666))
	case "chmod":
		return errName(v.Chmod(c.P, 0o755))
	case "truncate":
		return errName(v.Truncate(c.P, 0))
	case "stat":
		_, err := v.Stat(c.P)
		return errName(err)
	}
	return "bad-call"
}

// snapshot of the whole tree: path, type, link count, size of files, link targets; sorted
func snapshot(sys any) string {
	if idm, ok := sys.(*memidm.MemIdm); ok {
		return idm.VerifDump()
	}
	v := sys.(avfs.VFS)
	var out []string
	var rec func(dir string)
	rec = func(dir string) {
		des, err := v.ReadDir(dir)
		if err != nil {
			out = append(out, dir+" !"+errName(err))
			return
		}
		for _, de := range des {
			p := dir + "/" + de.Name()
			if dir == "/" {
				p = "/" + de.Name()
			}
			fi, err := v.Lstat(p)
			if err != nil {
				out = append(out, p+" !"+errName(err))
				continue
			}
			nl := 0
			if sst := v.ToSysStat(fi); sst != nil {
				nl = int(sst.Nlink())
			}
			switch {
			case fi.IsDir():
				out = append(out, p+" d")
				rec(p)
			case fi.Mode()&fs.ModeSymlink != 0:
				t, _ := v.Readlink(p)
				out = append(out, p+" l->"+t)
			default:
				out = append(out, fmt.Sprintf("%s f nlink=%d size=%d", p, nl, fi.Size()))
			}
		}
	}
	rec("/")
	sort.Strings(out)
	return strings.Join(out, "\n")
}

type outcome struct {
	Results [][]string `json:"results"`
	Tree    string     `json:"tree"`
}

func (o outcome) key() string {
	b, _ := json.Marshal(o.Results)
	return string(b) + "\n" + o.Tree
}

// sequential outcomes of all interleavings
func seqOutcomes(fsn string, p program) map[string]string {
	res := map[string]string{}
	idx := make([]int, len(p))
	var order []int
	var rec func()
	rec = func() {
		done := true
		for t := range p {
			if idx[t] < len(p[t]) {
				done = false
				order = append(order, t)
				idx[t]++
				rec()
				idx[t]--
				order = order[:len(order)-1]
			}
		}
		if !done {
			return
		}
		v := newFS(fsn)
		views := make([]any, len(p))
		for t := range p {
			views[t] = view(v)
		}
		o := outcome{Results: make([][]string, len(p))}
		pos := make([]int, len(p))
		for _, t := range order {
			o.Results[t] = append(o.Results[t], doCall(views[t], p[t][pos[t]]))
			pos[t]++
		}
		o.Tree = snapshot(v)
		res[o.key()] = fmt.Sprint(order)
	}
	rec()
	return res
}

var holdNodes = []string{"/", "/d", "/e", "/d/f", "/d/x", "/s", "/s/t", "/e/h"}

// runConcurrent runs the program free-running. With hold != "" (MemFS) the lock of that node is held (shared or
// exclusive) while the goroutines start, so that they pile up at it, and is released a moment later.
func runConcurrent(fsn string, p program, r *lib.Rng, hold string, holdW bool) outcome {
	v := newFS(fsn)
	var release func()
	if m, ok := v.(*memfs.MemFS); ok && hold != "" {
		release, _ = m.VerifLockNode(hold, holdW)
	}
	o := outcome{Results: make([][]string, len(p))}
	var ready, goFlag int32
	var wg sync.WaitGroup
	for t := range p {
		wg.Add(1)
		vw := view(v)
		spin := r.Intn(64)
		go func(t int, vw any, spin int) {
			defer wg.Done()
			atomic.AddInt32(&ready, 1)
			for atomic.LoadInt32(&goFlag) == 0 {
			}
			for i := 0; i < spin; i++ {
				_ = atomic.LoadInt32(&goFlag)
			}
			for _, c := range p[t] {
				o.Results[t] = append(o.Results[t], doCall(vw, c))
			}
		}(t, vw, spin)
	}
	for atomic.LoadInt32(&ready) < int32(len(p)) {
		runtime.Gosched()
	}
	atomic.StoreInt32(&goFlag, 1)
	if release != nil {
		for i, n := 0, 200+r.Intn(20000); i < n; i++ {
			_ = atomic.LoadInt32(&goFlag)
		}
		release()
	}
	done := make(chan struct{})
	go func() { wg.Wait(); close(done) }()
	select {
	case <-done:
	case <-time.After(3 * time.Second):
		return outcome{Tree: "DEADLOCK"}
	}
	o.Tree = snapshot(v)
	return o
}

// ---------------------------------------------------------------------------------------------------------------

var leaf = []string{"/d/f", "/d/x", "/d/n", "/e/g", "/e/n"}

// MemIdm: a small pool of names around one group and one user that exist from the start (g0 = gid 1, u0 = uid 1)
func idmCalls(known bool) []call {
	var cs []call
	for _, g := range []string{"g0", "g1"} {
		cs = append(cs, call{Kind: "addgroup", P: g}, call{Kind: "delgroup", P: g}, call{Kind: "lookupgroup", P: g})
	}
	for _, u := range []string{"u0", "u1"} {
		cs = append(cs, call{Kind: "deluser", P: u}, call{Kind: "lookupuser", P: u})
	}
	cs = append(cs, call{Kind: "lookupgid", P: "1"}, call{Kind: "lookupgid", P: "2"}, call{Kind: "lookupuid", P: "1"}, call{Kind: "lookupuid", P: "2"})
	if known {
		// AddUser is two critical sections (recorded finding): programs with it are outside the proved calls
		cs = append(cs, call{Kind: "adduser", P: "u1", Q: "g0"}, call{Kind: "adduser", P: "u1", Q: "g1"}, call{Kind: "adduser", P: "u0", Q: "g0"})
	}
	return cs
}

func provedCalls(fsn string) []call {
	if fsn == "memidm" {
		return idmCalls(false)
	}
	var cs []call
	kinds := []string{"mkdir", "createexcl", "remove", "lstat"}
	if fsn == "orefafs" {
		kinds = []string{"mkdir", "remove", "lstat"} // OpenFile(O_CREATE) of OrefaFS checks under the read lock: recorded finding
	}
	for _, k := range kinds {
		for _, p := range leaf {
			cs = append(cs, call{Kind: k, P: p})
		}
	}
	if fsn == "orefafs" {
		// MkdirAll and RemoveAll of OrefaFS are one critical section too (C06_single_section_orefafs): nested names
		for _, p := range []string{"/d/n", "/d/n/m", "/d/n/m/o", "/e/n/m"} {
			cs = append(cs, call{Kind: "mkdirall", P: p})
		}
		cs = append(cs, call{Kind: "mkdir", P: "/d/n/m"}, call{Kind: "mkdir", P: "/d/n/c"}, call{Kind: "lstat", P: "/d/n/m"}, call{Kind: "lstat", P: "/d/n/c"},
			call{Kind: "removeall", P: "/d/n"}, call{Kind: "removeall", P: "/d/x"}, call{Kind: "remove", P: "/d/n/m"})
	}
	return cs
}

func knownCalls(fsn string) []call {
	if fsn == "memidm" {
		return idmCalls(true)
	}
	cs := []call{
		{Kind: "link", P: "/e/h", Q: "/d/n"}, {Kind: "link", P: "/d/f", Q: "/d/n"}, {Kind: "link", P: "/e/h", Q: "/e/n"},
		{Kind: "rename", P: "/d/f", Q: "/d/n"}, {Kind: "rename", P: "/e/h", Q: "/d/n"}, {Kind: "rename", P: "/e/g", Q: "/d/n"},
		{Kind: "rename", P: "/d/x", Q: "/e/n"}, {Kind: "rename", P: "/s", Q: "/e/n"}, {Kind: "rename", P: "/s/t", Q: "/d/n"},
		{Kind: "removeall", P: "/s"}, {Kind: "removeall", P: "/d/x"}, {Kind: "mkdir", P: "/s/t/u"}, {Kind: "mkdir", P: "/d/x/u"},
		{Kind: "remove", P: "/s/t"}, {Kind: "remove", P: "/d/x"}, {Kind: "mkdirall", P: "/s/t/u/v"}, {Kind: "createexcl", P: "/d/x/u"},
		{Kind: "createexcl", P: "/d/n"}, {Kind: "mkdir", P: "/d/n"}, {Kind: "remove", P: "/d/n"}, {Kind: "lstat", P: "/d/n"},
	}
	if fsn == "memfs" {
		cs = append(cs, call{Kind: "symlink", P: "/e/h", Q: "/d/n"}, call{Kind: "symlink", P: "/d", Q: "/e/n"})
	}
	return cs
}

func deadlockCalls(fsn string) []call {
	cs := append(provedCalls(fsn), knownCalls(fsn)...)
	for _, p := range []string{"/d", "/e", "/s", "/"} {
		cs = append(cs, call{Kind: "readdir", P: p})
	}
	for _, p := range []string{"/d/f", "/e/g", "/e/h", "/d/n"} {
		cs = append(cs, call{Kind: "readfile", P: p}, call{Kind: "writefile", P: p}, call{Kind: "chmod", P: p}, call{Kind: "truncate", P: p}, call{Kind: "stat", P: p})
	}
	cs = append(cs, call{Kind: "link", P: "/e/g", Q: "/d/n"}, call{Kind: "link", P: "/d/f", Q: "/e/n"}, call{Kind: "remove", P: "/e/h"})
	return cs
}

func genProgram(r *lib.Rng, pool []call, must func(program) bool) program {
	for {
		nt := 2 + r.Intn(2)
		p := make(program, nt)
		// overlapping names: bias all calls of a program to one or two paths
		focus := lib.Pick(r, pool).P
		for t := range p {
			n := 1 + r.Intn(2)
			for i := 0; i < n; i++ {
				c := lib.Pick(r, pool)
				if r.Bool(70) {
					for k := 0; k < 8 && c.P != focus && c.Q != focus; k++ {
						c = lib.Pick(r, pool)
					}
				}
				p[t] = append(p[t], c)
			}
		}
		if must == nil || must(p) {
			return p
		}
	}
}

type failure struct {
	Class      string            `json:"class"`
	Proved     bool              `json:"proved"`
	FS         string            `json:"fs"`
	Program    string            `json:"program"`
	Round      int               `json:"round"`
	Observed   outcome           `json:"observed"`
	Sequential map[string]string `json:"sequential_outcomes"`
}

type report struct {
	FS       string         `json:"fs"`
	Mode     string         `json:"mode"`
	Rounds   int            `json:"rounds"`
	Programs int            `json:"distinct_programs"`
	Calls    int            `json:"calls"`
	Classes  map[string]int `json:"rounds_per_class"`
	Outcomes int            `json:"distinct_concurrent_outcomes"`
	NonSeq   int            `json:"outcomes_matching_only_a_non_trivial_interleaving"`
	Failures []failure      `json:"failures"`
}

func main() {
	fsn := flag.String("fs", "memfs", "memfs|orefafs|memidm")
	mode := flag.String("mode", "proved", "proved|known|deadlock")
	holdPct := flag.Int("hold", 50, "percentage of rounds (MemFS) started while the lock of a random node is held")
	rounds := flag.Int("rounds", 20000, "rounds")
	seed := flag.Uint64("seed", 1, "seed")
	only := flag.String("only", "", "restrict the call kinds (comma separated)")
	prog := flag.String("prog", "", "run this program only")
	repeat := flag.Int("repeat", 8, "rounds per generated program")
	flag.Parse()
	r := lib.NewRng(*seed*977 + 13)
	pool := provedCalls(*fsn)
	if *mode == "known" {
		pool = knownCalls(*fsn)
	}
	if *mode == "deadlock" { // every call kind but Rename, whose lock order is a recorded finding (exhibited by the known mode)
		for _, c := range deadlockCalls(*fsn) {
			if c.Kind != "rename" {
				pool = append(pool, c)
			}
		}
		pool = pool[len(provedCalls(*fsn)):]
	}
	if *only != "" {
		allow := map[string]bool{}
		for _, k := range strings.Split(*only, ",") {
			allow[k] = true
		}
		var np []call
		for _, c := range pool {
			if allow[c.Kind] {
				np = append(np, c)
			}
		}
		pool = np
	}
	rep := report{FS: *fsn, Mode: *mode, Classes: map[string]int{}}
	cache := map[string]map[string]string{}
	outs := map[string]bool{}
	seenClass := map[string]bool{}
	deadlocks := 0
	for rep.Rounds < *rounds && deadlocks < 3 { // blocked goroutines are never reclaimed: stop after a few
		var p program
		if *prog != "" {
			p = parseProgram(*prog)
		} else {
			p = genProgram(r, pool, nil)
		}
		key := p.String()
		seq, ok := cache[key]
		if !ok {
			if *mode == "deadlock" {
				seq = map[string]string{}
			} else {
				seq = seqOutcomes(*fsn, p)
			}
			cache[key] = seq
		}
		cls := p.class(*fsn)
		if *mode == "deadlock" {
			cls = strings.Replace(strings.Replace(cls, "lin.", "dl.", 1), ".known", "", 1)
		}
		for k := 0; k < *repeat && rep.Rounds < *rounds; k++ {
			hold, holdW := "", false
			if *fsn == "memfs" && r.Bool(*holdPct) {
				hold, holdW = lib.Pick(r, holdNodes), r.Bool(50)
			}
			o := runConcurrent(*fsn, p, r, hold, holdW)
			rep.Rounds++
			rep.Classes[cls]++
			for _, t := range p {
				rep.Calls += len(t)
			}
			ok := o.key()
			if !outs[key+ok] {
				outs[key+ok] = true
				rep.Outcomes++
			}
			if _, found := seq[ok]; found {
				continue
			}
			if o.Tree == "DEADLOCK" {
				deadlocks++
			} else if *mode == "deadlock" {
				continue
			}
			if seenClass[cls] {
				continue
			}
			seenClass[cls] = true
			rep.Failures = append(rep.Failures, failure{Class: cls, Proved: p.proved(*fsn) || (*mode == "deadlock" && !strings.Contains(cls, "rename") && *fsn == "memfs"), FS: *fsn, Program: key, Round: rep.Rounds, Observed: o, Sequential: seq})
		}
	}
	rep.Programs = len(cache)
	b, _ := json.MarshalIndent(rep, "", " ")
	fmt.Println(string(b))
	if len(rep.Failures) > 0 {
		os.Exit(1)
	}
}
