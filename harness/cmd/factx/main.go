// factx: go/ast fact extractor. Reads the wrapper file systems of /repo (RoFS, FailFS, BasePathFS and their File
// types) and emits, as a Lean file, the *shape* of every method: refuse / forward / consult-then-forward /
// composite-over-the-wrapper / guarded forward, with the base method called, how each argument is passed and how
// results are translated. Purely syntactic; anything it does not recognise becomes `Shape.unknown`, which no
// obligation accepts (fails closed).
//
// usage: factx <repo> <out.lean>
package main

import (
	"bytes"
	"fmt"
	"go/ast"
	"go/parser"
	"go/printer"
	"go/token"
	"os"
	"path/filepath"
	"sort"
	"strings"
)

type shape struct {
	kind    string   // refuse | forward | consult | composite | selfcall | guarded | pure | unknown
	base    string   // base method / helper / self method called
	args    []string // argument expressions as written
	params  []string // parameter names of the method
	errs    []string // error expressions of a refusal
	fn      string   // FnVFS id consulted (FailFS)
	guard   string   // guard condition text (guarded forward) / early return conditions
	wrapRes string   // how results are post-processed (BasePathFS): text of the return expressions
	note    string
	nilChk  bool // starts with `if f == nil { return …, fs.ErrInvalid }`
}

var fset = token.NewFileSet()

func src(n ast.Node) string {
	var b bytes.Buffer
	_ = printer.Fprint(&b, fset, n)
	return strings.Join(strings.Fields(b.String()), " ")
}

// mentions reports whether the node mentions selector `.name`.
func mentions(n ast.Node, name string) bool {
	found := false
	ast.Inspect(n, func(x ast.Node) bool {
		if s, ok := x.(*ast.SelectorExpr); ok && s.Sel.Name == name {
			found = true
		}
		return !found
	})
	return found
}

func paramNames(fd *ast.FuncDecl) []string {
	var out []string
	for _, f := range fd.Type.Params.List {
		for _, n := range f.Names {
			out = append(out, n.Name)
		}
	}
	return out
}

// baseCall matches `recv.baseFS.M(args)` / `recv.baseFile.M(args)`.
func baseCall(e ast.Expr) (string, []ast.Expr, bool) {
	c, ok := e.(*ast.CallExpr)
	if !ok {
		return "", nil, false
	}
	s, ok := c.Fun.(*ast.SelectorExpr)
	if !ok {
		return "", nil, false
	}
	in, ok := s.X.(*ast.SelectorExpr)
	if !ok || (in.Sel.Name != "baseFS" && in.Sel.Name != "baseFile") {
		return "", nil, false
	}
	return s.Sel.Name, c.Args, true
}

func argTexts(args []ast.Expr, ell bool) []string {
	var out []string
	for _, a := range args {
		out = append(out, src(a))
	}
	if ell && len(out) > 0 {
		out[len(out)-1] += "..."
	}
	return out
}

func isErrNilCheck(s ast.Stmt) bool {
	is, ok := s.(*ast.IfStmt)
	if !ok || is.Init != nil || is.Else != nil {
		return false
	}
	return src(is.Cond) == "err != nil"
}

func errExprs(n ast.Node) []string {
	var out []string
	ast.Inspect(n, func(x ast.Node) bool {
		if kv, ok := x.(*ast.KeyValueExpr); ok && src(kv.Key) == "Err" {
			out = append(out, src(kv.Value))
		}
		return true
	})
	// errors assigned to a local `err` that is then used as Err: err
	ast.Inspect(n, func(x ast.Node) bool {
		if as, ok := x.(*ast.AssignStmt); ok && len(as.Lhs) == 1 && src(as.Lhs[0]) == "err" && len(as.Rhs) == 1 {
			t := src(as.Rhs[0])
			if strings.Contains(t, "Err") || strings.Contains(t, "err") {
				out = append(out, strings.TrimSuffix(strings.TrimPrefix(t, "error("), ")"))
			}
		}
		return true
	})
	sort.Strings(out)
	var u []string
	for _, e := range out {
		if e != "err" && (len(u) == 0 || u[len(u)-1] != e) {
			u = append(u, e)
		}
	}
	return u
}

func classify(fd *ast.FuncDecl) shape {
	sh := shape{kind: "unknown", params: paramNames(fd)}
	if fd.Body == nil {
		return sh
	}
	var stmts []ast.Stmt
	for _, s := range fd.Body.List {
		if d, ok := s.(*ast.DeclStmt); ok {
			if g, ok := d.Decl.(*ast.GenDecl); ok && g.Tok == token.CONST {
				continue
			}
		}
		stmts = append(stmts, s)
	}
	// nil receiver guard
	if len(stmts) > 0 {
		if is, ok := stmts[0].(*ast.IfStmt); ok && src(is.Cond) == "f == nil" {
			sh.nilChk = true
			stmts = stmts[1:]
		}
	}
	usesBase := false
	for _, s := range stmts {
		if mentions(s, "baseFS") || mentions(s, "baseFile") {
			usesBase = true
		}
	}
	retOf := func(s ast.Stmt) *ast.ReturnStmt { r, _ := s.(*ast.ReturnStmt); return r }

	// FailFS consult prefix: <local assignments>; err := X.fail(avfs.FnX, &fp); if err != nil { return …, err }
	for k := 0; k+1 < len(stmts); k++ {
		as, ok := stmts[k].(*ast.AssignStmt)
		if !ok || len(as.Rhs) != 1 {
			if isDecl(stmts[k]) {
				continue
			}
			break
		}
		c, ok := as.Rhs[0].(*ast.CallExpr)
		if ok && strings.HasSuffix(src(c.Fun), ".fail") && len(c.Args) == 2 {
			if !isErrNilCheck(stmts[k+1]) {
				break
			}
			// the error branch must return the consulted error and not touch the base
			if mentions(stmts[k+1], "baseFS") || mentions(stmts[k+1], "baseFile") {
				break
			}
			sh.fn = strings.TrimPrefix(src(c.Args[0]), "avfs.")
			inner := classifyTail(stmts[k+2:], sh)
			inner.fn = sh.fn
			inner.nilChk = sh.nilChk
			if inner.kind == "forward" || inner.kind == "composite" || inner.kind == "openwrap" {
				inner.note = inner.kind
				inner.wrapRes = inner.kind + " " + inner.wrapRes
				inner.kind = "consult"
			} else {
				inner.kind = "unknown"
			}
			return inner
		}
		if mentions(stmts[k], "baseFS") || mentions(stmts[k], "baseFile") {
			break
		}
	}
	if !usesBase {
		// self call / composite / refuse / pure
		if len(stmts) == 1 && retOf(stmts[0]) != nil && len(retOf(stmts[0]).Results) == 1 {
			if c, ok := retOf(stmts[0]).Results[0].(*ast.CallExpr); ok {
				if s, ok := c.Fun.(*ast.SelectorExpr); ok {
					if id, ok := s.X.(*ast.Ident); ok && id.Name == "avfs" && len(c.Args) > 0 && isRecv(c.Args[0], fd) {
						sh.kind, sh.base, sh.args = "composite", s.Sel.Name, argTexts(c.Args[1:], c.Ellipsis.IsValid())
						return sh
					}
					if isRecv(s.X, fd) {
						sh.kind, sh.base, sh.args = "selfcall", s.Sel.Name, argTexts(c.Args, c.Ellipsis.IsValid())
						return sh
					}
				}
			}
		}
		es := errExprs(fd.Body)
		last := retOf(stmts[len(stmts)-1])
		if len(es) > 0 && last != nil {
			sh.kind, sh.errs = "refuse", es
			for _, s := range stmts {
				if is, ok := s.(*ast.IfStmt); ok {
					sh.guard += src(is.Cond) + ";"
				}
			}
			return sh
		}
		sh.kind, sh.note = "pure", "no base access"
		if last != nil {
			sh.wrapRes = src(last)
		}
		return sh
	}
	t := classifyTail(stmts, sh)
	t.nilChk = sh.nilChk
	return t
}

func isDecl(s ast.Stmt) bool { _, ok := s.(*ast.DeclStmt); return ok }

func isRecv(e ast.Expr, fd *ast.FuncDecl) bool {
	id, ok := e.(*ast.Ident)
	if !ok || fd.Recv == nil || len(fd.Recv.List) == 0 || len(fd.Recv.List[0].Names) == 0 {
		return false
	}
	return id.Name == fd.Recv.List[0].Names[0].Name
}

// classifyTail recognises the statements that talk to the base.
func classifyTail(stmts []ast.Stmt, sh shape) shape {
	retOf := func(s ast.Stmt) *ast.ReturnStmt { r, _ := s.(*ast.ReturnStmt); return r }
	// prefix: guards `if <cond> { return … }` with no base access, and path translations
	// `v[, w] := recv.ToBasePath(p)[, recv.ToBasePath(q)]` whose variables stand for the translated parameter afterwards
	subst := map[string]string{}
	for len(stmts) > 1 {
		if as, ok := stmts[0].(*ast.AssignStmt); ok && as.Tok == token.DEFINE && len(as.Lhs) == len(as.Rhs) {
			all := true
			for _, r := range as.Rhs {
				c, ok := r.(*ast.CallExpr)
				if !ok || len(c.Args) != 1 {
					all = false
					break
				}
				sel, ok := c.Fun.(*ast.SelectorExpr)
				if _, isId := c.Args[0].(*ast.Ident); !ok || sel.Sel.Name != "ToBasePath" || !isId {
					all = false
					break
				}
			}
			if all {
				for i, l := range as.Lhs {
					if id, ok := l.(*ast.Ident); ok {
						subst[id.Name] = src(as.Rhs[i])
					}
				}
				stmts = stmts[1:]
				continue
			}
		}
		is, ok := stmts[0].(*ast.IfStmt)
		if !ok || mentions(is, "baseFS") || mentions(is, "baseFile") || is.Else != nil {
			break
		}
		sh.guard += src(is.Cond) + " => " + strings.Join(errExprs(is.Body), ",") + ";"
		stmts = stmts[1:]
	}
	fix := func(sh shape) shape {
		for i, a := range sh.args {
			if t, ok := subst[a]; ok {
				sh.args[i] = t
			}
		}
		return sh
	}
	// 1. return recv.base.M(args)
	if len(stmts) == 1 && retOf(stmts[0]) != nil && len(retOf(stmts[0]).Results) == 1 {
		r := retOf(stmts[0]).Results[0]
		if m, args, ok := baseCall(r); ok {
			c := r.(*ast.CallExpr)
			sh.kind, sh.base, sh.args = "forward", m, argTexts(args, c.Ellipsis.IsValid())
			return fix(sh)
		}
		if c, ok := r.(*ast.CallExpr); ok {
			if s, ok := c.Fun.(*ast.SelectorExpr); ok {
				if id, ok := s.X.(*ast.Ident); ok && id.Name == "avfs" {
					sh.kind, sh.base, sh.args = "composite", s.Sel.Name, argTexts(c.Args[1:], c.Ellipsis.IsValid())
					return fix(sh)
				}
			}
		}
	}
	// 2. x, err := recv.base.M(args); return <post(x)>, <post(err)>      (BasePathFS)
	if len(stmts) == 2 && retOf(stmts[1]) != nil {
		if as, ok := stmts[0].(*ast.AssignStmt); ok && len(as.Rhs) == 1 {
			if m, args, ok := baseCall(as.Rhs[0]); ok {
				sh.kind, sh.base, sh.args = "forward", m, argTexts(args, false)
				sh.wrapRes = src(stmts[1])
				return fix(sh)
			}
		}
	}
	// 3. bf, err := recv.base.OpenFile(args); if err != nil { return …, <err> }; f := &T{…}; return f, nil|err
	if len(stmts) == 4 && retOf(stmts[3]) != nil {
		if as, ok := stmts[0].(*ast.AssignStmt); ok && len(as.Rhs) == 1 && isErrNilCheck(stmts[1]) {
			if m, args, ok := baseCall(as.Rhs[0]); ok {
				sh.kind, sh.base, sh.args = "openwrap", m, argTexts(args, false)
				sh.wrapRes = src(stmts[1].(*ast.IfStmt).Body) + " | " + src(stmts[2]) + " | " + src(stmts[3])
				return fix(sh)
			}
		}
	}
	// 3b. x, err := recv.base.M(args); if err != nil { return …, err }; return Wrap(x), nil
	if len(stmts) == 3 && retOf(stmts[2]) != nil {
		if as, ok := stmts[0].(*ast.AssignStmt); ok && len(as.Rhs) == 1 && isErrNilCheck(stmts[1]) {
			if m, args, ok := baseCall(as.Rhs[0]); ok {
				sh.kind, sh.base, sh.args = "openwrap", m, argTexts(args, false)
				sh.wrapRes = src(stmts[1].(*ast.IfStmt).Body) + " | " + src(stmts[2])
				return fix(sh)
			}
		}
	}
	// 3c. x, err = recv.base.M(args); if <cond> { <local assignments> }; return <post>      (BasePathFS.Getwd)
	if len(stmts) == 3 && retOf(stmts[2]) != nil {
		if as, ok := stmts[0].(*ast.AssignStmt); ok && len(as.Rhs) == 1 {
			if m, args, ok := baseCall(as.Rhs[0]); ok {
				if is, ok := stmts[1].(*ast.IfStmt); ok && !mentions(is, "baseFS") && !mentions(is, "baseFile") && is.Else == nil {
					sh.kind, sh.base, sh.args = "forward", m, argTexts(args, false)
					sh.wrapRes = "if " + src(is.Cond) + " " + src(is.Body) + " | " + src(stmts[2])
					return fix(sh)
				}
			}
		}
	}
	// 4. x, err = recv.base.M(args); for … { post }; return   (BasePathFS.Glob)
	if len(stmts) == 3 && retOf(stmts[2]) != nil {
		if as, ok := stmts[0].(*ast.AssignStmt); ok && len(as.Rhs) == 1 {
			if m, args, ok := baseCall(as.Rhs[0]); ok {
				if _, ok := stmts[1].(*ast.RangeStmt); ok {
					sh.kind, sh.base, sh.args = "forward", m, argTexts(args, false)
					sh.wrapRes = src(stmts[1]) + " | " + src(stmts[2])
					return fix(sh)
				}
			}
		}
	}
	sh.kind = "unknown"
	var parts []string
	for _, s := range stmts {
		parts = append(parts, src(s))
	}
	sh.note = strings.Join(parts, " ;; ")
	return sh
}

func lstr(s string) string {
	return "\"" + strings.ReplaceAll(strings.ReplaceAll(s, "\\", "\\\\"), "\"", "\\\"") + "\""
}
func llist(xs []string) string {
	var q []string
	for _, x := range xs {
		q = append(q, lstr(x))
	}
	return "[" + strings.Join(q, ", ") + "]"
}

func main() {
	if len(os.Args) < 3 {
		fmt.Fprintln(os.Stderr, "usage: factx <repo> <out.lean>")
		os.Exit(2)
	}
	repo, out := os.Args[1], os.Args[2]
	targets := []struct{ dir, typ, table string }{
		{"vfs/rofs", "RoFS", "rofs"}, {"vfs/rofs", "RoFile", "rofile"},
		{"vfs/failfs", "FailFS", "failfs"}, {"vfs/failfs", "FailFile", "failfile"},
		{"vfs/basepathfs", "BasePathFS", "bpfs"}, {"vfs/basepathfs", "BasePathFile", "bpfile"},
	}
	var b strings.Builder
	b.WriteString("import Avfs.Wrap.Shape\n/- GENERATED by harness/cmd/factx from /repo's working tree. Do not edit. -/\nnamespace Avfs.Generated\nopen Avfs.Wrap\n\n")
	for _, t := range targets {
		files, _ := filepath.Glob(filepath.Join(repo, t.dir, "*.go"))
		sort.Strings(files)
		type ent struct {
			name string
			sh   shape
		}
		var ents []ent
		for _, fn := range files {
			if strings.HasSuffix(fn, "_test.go") || strings.HasSuffix(fn, "_verif.go") {
				continue
			}
			f, err := parser.ParseFile(fset, fn, nil, 0)
			if err != nil {
				fmt.Fprintln(os.Stderr, err)
				os.Exit(1)
			}
			for _, d := range f.Decls {
				fd, ok := d.(*ast.FuncDecl)
				if !ok || fd.Recv == nil || len(fd.Recv.List) == 0 {
					continue
				}
				rt := src(fd.Recv.List[0].Type)
				if strings.TrimPrefix(rt, "*") != t.typ {
					continue
				}
				ents = append(ents, ent{fd.Name.Name, classify(fd)})
			}
		}
		sort.Slice(ents, func(i, j int) bool { return ents[i].name < ents[j].name })
		fmt.Fprintf(&b, "def %sTable : List (String × Shape) := [\n", t.table)
		for i, e := range ents {
			sep := ","
			if i == len(ents)-1 {
				sep = ""
			}
			s := e.sh
			fmt.Fprintf(&b, "  (%s, { kind := %s, base := %s, args := %s, params := %s, errs := %s, fn := %s, guard := %s, wrapRes := %s, nilChk := %v })%s\n",
				lstr(e.name), lstr(s.kind), lstr(s.base), llist(s.args), llist(s.params), llist(s.errs), lstr(s.fn), lstr(s.guard), lstr(s.wrapRes), s.nilChk, sep)
		}
		b.WriteString("]\n\n")
	}
	// the supplied read-only failure function (vfs/failfs/failfs_func.go): which function ids it refuses
	{
		f, err := parser.ParseFile(fset, filepath.Join(repo, "vfs/failfs/failfs_func.go"), nil, 0)
		if err != nil {
			fmt.Fprintln(os.Stderr, err)
			os.Exit(1)
		}
		var refuses []string
		openGuard, defaultNil, shapeOK := "", false, false
		for _, d := range f.Decls {
			fd, ok := d.(*ast.FuncDecl)
			if !ok || fd.Recv != nil || fd.Name.Name != "ReadOnlyFunc" || len(fd.Body.List) != 1 {
				continue
			}
			sw, ok := fd.Body.List[0].(*ast.SwitchStmt)
			if !ok || sw.Init != nil || src(sw.Tag) != "fn" {
				continue
			}
			shapeOK = true
			for _, c := range sw.Body.List {
				cc := c.(*ast.CaseClause)
				// a clause refuses when it is one return statement of a non-nil error value
				refusal := false
				if len(cc.Body) == 1 {
					if r, ok := cc.Body[0].(*ast.ReturnStmt); ok && len(r.Results) == 1 {
						if _, isLit := r.Results[0].(*ast.UnaryExpr); isLit {
							refusal = true
						} else if src(r.Results[0]) == "nil" && cc.List == nil {
							defaultNil = true
						}
					}
				}
				for _, e := range cc.List {
					id := strings.TrimPrefix(src(e), "avfs.")
					if id == "FnOpenFile" {
						var parts []string
						for _, st := range cc.Body {
							parts = append(parts, strings.Join(strings.Fields(src(st)), " "))
						}
						openGuard = strings.Join(parts, " | ")
					} else if refusal {
						refuses = append(refuses, id)
					} else {
						shapeOK = false
					}
				}
			}
		}
		sort.Strings(refuses)
		fmt.Fprintf(&b, "def readOnlyFuncRefuses : List String := %s\n\ndef readOnlyFuncOpenFile : String := %s\n\ndef readOnlyFuncDefaultNil : Bool := %v\n\ndef readOnlyFuncShapeOK : Bool := %v\n\n",
			llist(refuses), lstr(openGuard), defaultNil, shapeOK)
	}
	b.WriteString("end Avfs.Generated\n")
	old, _ := os.ReadFile(out)
	if string(old) != b.String() {
		if err := os.WriteFile(out, []byte(b.String()), 0o644); err != nil {
			fmt.Fprintln(os.Stderr, err)
			os.Exit(1)
		}
	}
}
