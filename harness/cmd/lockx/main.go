// lockx: go/ast translator from the source of vfs/memfs, vfs/orefafs, idm/memidm (and the shared umask / curdir /
// curuser helpers) to *lock facts*: for every access to a guarded field and every call of a package function, the set
// of locks that are certainly held at that point (intra-procedural must-analysis: sequential statements, intersection
// at joins, defers keep the lock to the end). The facts are written as a Lean file; the rules that every fact must
// satisfy (Avfs/Conc/Facts.lean) are decided by the Lean kernel on every run.
//
// Purely syntactic; a construct it cannot follow (a lock call on an expression it cannot name, goto, …) is emitted as
// an `unknown` fact that no rule accepts (fails closed).
//
// usage: lockx <repo> <out.lean>
package main

import (
	"bytes"
	"fmt"
	"go/ast"
	"go/parser"
	"go/printer"
	"go/token"
	"os"
	"path/filepath"
	"sort"
	"strings"
)

var fset = token.NewFileSet()

func src(n ast.Node) string {
	var b bytes.Buffer
	_ = printer.Fprint(&b, fset, n)
	return strings.Join(strings.Fields(b.String()), " ")
}

// guarded fields and the mutex field of their owner that guards them
var guardOf = map[string]string{
	"children": "mu", "data": "mu", "mode": "mu", "uid": "mu", "gid": "mu", "mtime": "mu", "nlink": "mu", "link": "mu",
	"nodes": "mu", "at": "mu", "nd": "mu", "dirEntries": "mu", "dirNames": "mu", "dirIndex": "mu",
	"groupsByName": "grpMu", "groupsById": "grpMu", "maxGid": "grpMu",
	"usersByName": "usrMu", "usersById": "usrMu", "maxUid": "usrMu",
}

var mutexFields = map[string]bool{"mu": true, "grpMu": true, "usrMu": true}

type held map[string]string // lock name "owner#mutex" -> "r" | "w"

func (h held) clone() held {
	c := held{}
	for k, v := range h {
		c[k] = v
	}
	return c
}

func meet(a, b held) held {
	c := held{}
	for k, v := range a {
		if w, ok := b[k]; ok {
			if v == "w" && w == "w" {
				c[k] = "w"
			} else {
				c[k] = "r"
			}
		}
	}
	return c
}

func (h held) list() []string {
	var out []string
	for k, v := range h {
		out = append(out, k+":"+v)
	}
	sort.Strings(out)
	return out
}

type fact struct {
	kind   string // access | call | unknown
	pkg    string
	fn     string
	line   int
	field  string
	write  bool
	owner  string   // canonical owner expression (after alias resolution)
	okind  string   // recv | param | local | fresh
	callee string   // for calls: method / function name
	args   []string // canonical receiver + object arguments
	akinds []string
	held   []string
	note   string
}

type walker struct {
	pkg     string
	fn      string
	recv    string
	params  map[string]bool
	alias   map[string]string
	fresh   map[string]bool
	funcs   map[string]bool // functions / methods of the package (by name)
	facts   *[]fact
	defers  held
	exit    bool
	imports map[string]bool
}

// guardedIn: is `field` a guarded field in this package? (memidm guards only its maps and counters; its user/group
// records are immutable after construction)
func (w *walker) guardedIn(field string) bool {
	g, ok := guardOf[field]
	if !ok {
		return false
	}
	if w.pkg == "memidm" {
		return g == "grpMu" || g == "usrMu"
	}
	return g == "mu"
}

func (w *walker) canon(e ast.Expr) string {
	switch x := e.(type) {
	case *ast.Ident:
		if a, ok := w.alias[x.Name]; ok {
			return a
		}
		return x.Name
	case *ast.ParenExpr:
		return w.canon(x.X)
	case *ast.StarExpr:
		return w.canon(x.X)
	case *ast.UnaryExpr:
		return w.canon(x.X)
	case *ast.TypeAssertExpr:
		return w.canon(x.X)
	case *ast.SelectorExpr:
		return w.canon(x.X) + "." + x.Sel.Name
	case *ast.IndexExpr:
		return w.canon(x.X) + "[]"
	case *ast.CallExpr:
		return src(x.Fun) + "()"
	}
	return src(e)
}

func (w *walker) kindOf(owner string) string {
	root := owner
	if i := strings.IndexAny(root, ".["); i >= 0 {
		root = root[:i]
	}
	switch {
	case w.fresh[owner] || w.fresh[root]:
		return "fresh"
	case owner == w.recv:
		return "recv"
	case w.params[owner]:
		return "param"
	case root == w.recv || w.params[root]:
		return "reach" // reached through a field of the receiver / a parameter (e.g. f.nd)
	}
	return "local"
}

// lockCall recognises X.mu.Lock() / X.mu.RLock() / … and X.Lock() / X.Unlock() (node interface).
func (w *walker) lockCall(c *ast.CallExpr) (name, op string, ok bool) {
	s, ok2 := c.Fun.(*ast.SelectorExpr)
	if !ok2 {
		return "", "", false
	}
	m := s.Sel.Name
	if m != "Lock" && m != "RLock" && m != "Unlock" && m != "RUnlock" {
		return "", "", false
	}
	if in, ok3 := s.X.(*ast.SelectorExpr); ok3 && mutexFields[in.Sel.Name] {
		return w.canon(in.X) + "#" + in.Sel.Name, m, true
	}
	// X.Lock() on a node
	return w.canon(s.X) + "#mu", m, true
}

func (w *walker) emit(f fact) {
	f.pkg, f.fn = w.pkg, w.fn
	*w.facts = append(*w.facts, f)
}

// accesses scans an expression for guarded field accesses and package calls. `lhs` marks a write position.
func (w *walker) accesses(e ast.Node, h held, lhs bool) {
	if e == nil {
		return
	}
	switch x := e.(type) {
	case *ast.SelectorExpr:
		if w.guardedIn(x.Sel.Name) {
			owner := w.canon(x.X)
			w.emit(fact{kind: "access", line: fset.Position(x.Pos()).Line, field: x.Sel.Name, write: lhs, owner: owner, okind: w.kindOf(owner), held: h.list()})
		}
		w.accesses(x.X, h, false)
	case *ast.IndexExpr:
		w.accesses(x.X, h, lhs)
		w.accesses(x.Index, h, false)
	case *ast.SliceExpr:
		w.accesses(x.X, h, lhs)
		for _, y := range []ast.Expr{x.Low, x.High, x.Max} {
			if y != nil {
				w.accesses(y, h, false)
			}
		}
	case *ast.CallExpr:
		if _, _, ok := w.lockCall(x); ok {
			return
		}
		fn := ""
		var objs []ast.Expr
		switch f := x.Fun.(type) {
		case *ast.SelectorExpr:
			fn = f.Sel.Name
			if id, ok := f.X.(*ast.Ident); ok && w.imports[id.Name] {
				fn = "" // a function of another package
			} else {
				objs = append(objs, f.X)
				w.accesses(f.X, h, false)
			}
		case *ast.Ident:
			fn = f.Name
			if fn == "delete" && len(x.Args) > 0 { // builtin delete(map, key): a write of the map
				w.accesses(x.Args[0], h, true)
				for _, a := range x.Args[1:] {
					w.accesses(a, h, false)
				}
				return
			}
			if fn == "append" && len(x.Args) > 0 {
				for _, a := range x.Args {
					w.accesses(a, h, false)
				}
				return
			}
		}
		for _, a := range x.Args {
			w.accesses(a, h, false)
		}
		if fn != "" && w.funcs[fn] {
			var args, kinds []string
			for _, o := range objs {
				c := w.canon(o)
				args = append(args, c)
				kinds = append(kinds, w.kindOf(c))
			}
			if len(objs) == 0 {
				args, kinds = append(args, ""), append(kinds, "")
			}
			for _, a := range x.Args {
				switch a.(type) {
				case *ast.Ident, *ast.SelectorExpr:
					c := w.canon(a)
					args = append(args, c)
					kinds = append(kinds, w.kindOf(c))
				default:
					args, kinds = append(args, "_"), append(kinds, "_")
				}
			}
			w.emit(fact{kind: "call", line: fset.Position(x.Pos()).Line, callee: fn, args: args, akinds: kinds, held: h.list()})
		}
	case *ast.FuncLit:
		// closures (sort callbacks, deferred funcs) are analysed in place with the current lockset
		w.block(x.Body.List, h.clone())
	case *ast.UnaryExpr:
		w.accesses(x.X, h, lhs)
	case *ast.StarExpr:
		w.accesses(x.X, h, lhs)
	case *ast.ParenExpr:
		w.accesses(x.X, h, lhs)
	case *ast.BinaryExpr:
		w.accesses(x.X, h, false)
		w.accesses(x.Y, h, false)
	case *ast.TypeAssertExpr:
		w.accesses(x.X, h, false)
	case *ast.CompositeLit:
		for _, el := range x.Elts {
			if kv, ok := el.(*ast.KeyValueExpr); ok {
				w.accesses(kv.Value, h, false)
			} else {
				w.accesses(el, h, false)
			}
		}
	case *ast.KeyValueExpr:
		w.accesses(x.Value, h, false)
	}
}

func (w *walker) bind(lhs ast.Expr, rhs ast.Expr) {
	id, ok := lhs.(*ast.Ident)
	if !ok || id.Name == "_" {
		return
	}
	switch r := rhs.(type) {
	case *ast.TypeAssertExpr:
		w.alias[id.Name] = w.canon(r.X)
	case *ast.Ident:
		if r.Name == "nil" { // `x = nil` names no object: the variable keeps standing for itself
			delete(w.alias, id.Name)
			return
		}
		w.alias[id.Name] = w.canon(r)
	case *ast.SelectorExpr:
		if guardOf[r.Sel.Name] != "" || r.Sel.Name == "vfs" || r.Sel.Name == "rootNode" {
			w.alias[id.Name] = w.canon(r)
		}
	case *ast.UnaryExpr:
		if _, ok := r.X.(*ast.CompositeLit); ok && r.Op == token.AND {
			w.fresh[id.Name] = true
		}
	case *ast.CompositeLit:
		w.fresh[id.Name] = true
	}
}

// block analyses statements; returns the lockset after them.
func (w *walker) block(stmts []ast.Stmt, h held) held {
	for _, s := range stmts {
		h = w.stmt(s, h)
	}
	return h
}

func (w *walker) stmt(s ast.Stmt, h held) held {
	switch x := s.(type) {
	case *ast.ExprStmt:
		if c, ok := x.X.(*ast.CallExpr); ok {
			if name, op, ok := w.lockCall(c); ok {
				if op == "Lock" || op == "RLock" {
					owner := strings.SplitN(name, "#", 2)[0]
					w.emit(fact{kind: "acquire", line: fset.Position(c.Pos()).Line, field: strings.SplitN(name, "#", 2)[1], write: op == "Lock", owner: owner, okind: w.kindOf(owner), held: h.list()})
				}
				switch op {
				case "Lock":
					h = h.clone()
					h[name] = "w"
				case "RLock":
					h = h.clone()
					h[name] = "r"
				default:
					h = h.clone()
					delete(h, name)
				}
				return h
			}
		}
		w.accesses(x.X, h, false)
	case *ast.DeferStmt:
		if _, op, ok := w.lockCall(x.Call); ok && (op == "Unlock" || op == "RUnlock") {
			return h // the lock stays held until the function returns
		}
		w.accesses(x.Call, h, false)
	case *ast.AssignStmt:
		for _, r := range x.Rhs {
			w.accesses(r, h, false)
		}
		for _, l := range x.Lhs {
			w.accesses(l, h, true)
		}
		if len(x.Lhs) >= 1 && len(x.Rhs) == 1 {
			w.bind(x.Lhs[0], x.Rhs[0])
		}
		if len(x.Lhs) == len(x.Rhs) {
			for i := range x.Lhs {
				w.bind(x.Lhs[i], x.Rhs[i])
			}
		}
	case *ast.IncDecStmt:
		w.accesses(x.X, h, true)
	case *ast.DeclStmt:
		if g, ok := x.Decl.(*ast.GenDecl); ok {
			for _, sp := range g.Specs {
				if vs, ok := sp.(*ast.ValueSpec); ok {
					for _, v := range vs.Values {
						w.accesses(v, h, false)
					}
				}
			}
		}
	case *ast.ReturnStmt:
		for _, r := range x.Results {
			w.accesses(r, h, false)
		}
	case *ast.IfStmt:
		if x.Init != nil {
			h = w.stmt(x.Init, h)
		}
		w.accesses(x.Cond, h, false)
		h1 := w.block(x.Body.List, h.clone())
		h2 := h
		if x.Else != nil {
			h2 = w.stmt(x.Else, h.clone())
		}
		if endsWithReturn(x.Body.List) {
			return h2
		}
		// `if a != b { a.mu.Lock(); defer a.mu.Unlock(); … }`: when a == b the lock of b, already held, is the lock of a
		if be, ok := x.Cond.(*ast.BinaryExpr); ok && be.Op == token.NEQ && x.Else == nil {
			a, b := w.canon(be.X), w.canon(be.Y)
			m := meet(h1, h2)
			for k, v := range h1 {
				if _, ok := m[k]; ok {
					continue
				}
				for _, pr := range [][2]string{{a, b}, {b, a}} {
					if strings.HasPrefix(k, pr[0]+"#") {
						other := pr[1] + k[len(pr[0]):]
						if ov, ok := h[other]; ok && (ov == "w" || v == "r") {
							m[k] = v
						}
					}
				}
			}
			return m
		}
		if eb, ok := x.Else.(*ast.BlockStmt); ok && endsWithReturn(eb.List) {
			return h1
		}
		return meet(h1, h2)
	case *ast.BlockStmt:
		return w.block(x.List, h)
	case *ast.ForStmt:
		if x.Init != nil {
			h = w.stmt(x.Init, h)
		}
		if x.Cond != nil {
			w.accesses(x.Cond, h, false)
		}
		hb := w.block(x.Body.List, h.clone())
		if x.Post != nil {
			w.stmt(x.Post, hb)
		}
		return meet(h, hb)
	case *ast.RangeStmt:
		w.accesses(x.X, h, false)
		hb := w.block(x.Body.List, h.clone())
		return meet(h, hb)
	case *ast.SwitchStmt:
		if x.Init != nil {
			h = w.stmt(x.Init, h)
		}
		if x.Tag != nil {
			w.accesses(x.Tag, h, false)
		}
		return w.cases(x.Body.List, h)
	case *ast.TypeSwitchStmt:
		if as, ok := x.Assign.(*ast.AssignStmt); ok && len(as.Lhs) == 1 && len(as.Rhs) == 1 {
			w.accesses(as.Rhs[0], h, false)
			w.bind(as.Lhs[0], as.Rhs[0])
		} else if es, ok := x.Assign.(*ast.ExprStmt); ok {
			w.accesses(es.X, h, false)
		}
		return w.cases(x.Body.List, h)
	case *ast.BranchStmt, *ast.EmptyStmt, *ast.LabeledStmt:
		if ls, ok := s.(*ast.LabeledStmt); ok {
			return w.stmt(ls.Stmt, h)
		}
	case *ast.GoStmt:
		w.emit(fact{kind: "unknown", line: fset.Position(x.Pos()).Line, note: "go statement"})
	default:
		w.emit(fact{kind: "unknown", line: fset.Position(s.Pos()).Line, note: fmt.Sprintf("%T", s)})
	}
	return h
}

func (w *walker) cases(list []ast.Stmt, h held) held {
	var out held
	hasDefault := false
	for _, c := range list {
		cc, ok := c.(*ast.CaseClause)
		if !ok {
			continue
		}
		if cc.List == nil {
			hasDefault = true
		}
		for _, e := range cc.List {
			w.accesses(e, h, false)
		}
		hc := w.block(cc.Body, h.clone())
		if endsWithReturn(cc.Body) {
			continue
		}
		if out == nil {
			out = hc
		} else {
			out = meet(out, hc)
		}
	}
	if !hasDefault {
		if out == nil {
			return h
		}
		return meet(out, h)
	}
	if out == nil {
		return h
	}
	return out
}

// ---------------------------------------------------------------------------------------------------------------
// commit shape (C06): a MemFS namespace call walks the path without the parent's lock (searchNode) and then commits
// under `parent.mu.Lock()`. The two-phase linearizability theorem (Avfs/Conc/Lin.lean) needs the commit to work on
// what it finds under the lock, not on what the walk saw. Facts emitted for every function that calls searchNode:
//
//	walk        field = the variable receiving the child found by the walk ("_" if discarded), note = the parent variable
//	commitlock  the first exclusive lock of a parent variable after the walk
//	relookup    after the lock: field = "<var>" for `var = parent.children[…]`, "test" for any other read of parent.children[…]
//	stale       after the lock: a use of a walk child variable that has not been looked up again   (field = variable)
//	mutate      after the lock: createDir/createFile/createSymlink/addChild/removeChild/delete on a parent; write = a
//	            read of parent.children[…] precedes it in the locked region   (field = callee)
type commitScan struct {
	w         *walker
	parents   map[string]bool
	children  map[string]bool
	locked    bool
	relooked  map[string]bool
	indexRead bool
	staleSeen map[string]bool
}

func (c *commitScan) isChildrenIndex(e ast.Expr) bool {
	ix, ok := e.(*ast.IndexExpr)
	if !ok {
		return false
	}
	sel, ok := ix.X.(*ast.SelectorExpr)
	if !ok || sel.Sel.Name != "children" {
		return false
	}
	id, ok := sel.X.(*ast.Ident)
	return ok && c.parents[id.Name]
}

func (c *commitScan) line(n ast.Node) int { return fset.Position(n.Pos()).Line }

// expr records the uses inside an expression (after the commit lock).
func (c *commitScan) expr(e ast.Node) {
	if e == nil || !c.locked {
		return
	}
	ast.Inspect(e, func(n ast.Node) bool {
		switch x := n.(type) {
		case *ast.IndexExpr:
			if c.isChildrenIndex(x) {
				if !c.indexRead {
					c.w.emit(fact{kind: "relookup", line: c.line(x), field: "test"})
				}
				c.indexRead = true
			}
		case *ast.Ident:
			if c.children[x.Name] && !c.relooked[x.Name] && !c.staleSeen[x.Name] {
				c.staleSeen[x.Name] = true
				c.w.emit(fact{kind: "stale", line: c.line(x), field: x.Name})
			}
		case *ast.CallExpr:
			callee, onParent := "", false
			switch f := x.Fun.(type) {
			case *ast.SelectorExpr:
				callee = f.Sel.Name
				if id, ok := f.X.(*ast.Ident); ok && c.parents[id.Name] {
					onParent = true
				}
				if len(x.Args) > 0 {
					if id, ok := x.Args[0].(*ast.Ident); ok && c.parents[id.Name] {
						onParent = true
					}
				}
			case *ast.Ident:
				callee = f.Name
				if callee == "delete" && len(x.Args) > 0 {
					if sel, ok := x.Args[0].(*ast.SelectorExpr); ok && sel.Sel.Name == "children" {
						if id, ok := sel.X.(*ast.Ident); ok && c.parents[id.Name] {
							onParent = true
						}
					}
				}
			}
			switch callee {
			case "createDir", "createFile", "createSymlink", "addChild", "removeChild", "delete":
				if onParent {
					c.w.emit(fact{kind: "mutate", line: c.line(x), field: callee, write: c.indexRead})
				}
			}
		}
		return true
	})
}

func (c *commitScan) stmts(list []ast.Stmt) {
	for _, s := range list {
		c.stmt(s)
	}
}

func (c *commitScan) nested(f func()) {
	rl, ir := map[string]bool{}, c.indexRead
	for k, v := range c.relooked {
		rl[k] = v
	}
	lk := c.locked
	f()
	// what a nested block looked up again does not count after it; a lock taken inside it (defer-unlocked) stays
	c.relooked, c.indexRead = rl, ir
	c.locked = c.locked || lk
}

func (c *commitScan) stmt(s ast.Stmt) {
	switch x := s.(type) {
	case *ast.ExprStmt:
		if call, ok := x.X.(*ast.CallExpr); ok {
			if name, op, ok := c.w.lockCall(call); ok {
				owner := strings.SplitN(name, "#", 2)[0]
				if op == "Lock" && c.parents[owner] && !c.locked {
					c.locked = true
					c.w.emit(fact{kind: "commitlock", line: c.line(call), field: owner})
				}
				return
			}
		}
		c.expr(x.X)
	case *ast.AssignStmt:
		if c.locked && len(x.Lhs) == 1 && len(x.Rhs) == 1 {
			if id, ok := x.Lhs[0].(*ast.Ident); ok && c.children[id.Name] && c.isChildrenIndex(x.Rhs[0]) {
				c.relooked[id.Name] = true
				c.indexRead = true
				c.w.emit(fact{kind: "relookup", line: c.line(x), field: id.Name})
				return
			}
		}
		for _, r := range x.Rhs {
			c.expr(r)
		}
		for _, l := range x.Lhs {
			c.expr(l)
		}
	case *ast.IfStmt:
		if x.Init != nil {
			c.stmt(x.Init)
		}
		c.expr(x.Cond)
		c.nested(func() { c.stmts(x.Body.List) })
		if x.Else != nil {
			c.nested(func() { c.stmt(x.Else) })
		}
	case *ast.BlockStmt:
		c.stmts(x.List)
	case *ast.ForStmt:
		c.nested(func() {
			if x.Init != nil {
				c.stmt(x.Init)
			}
			c.expr(x.Cond)
			c.stmts(x.Body.List)
			if x.Post != nil {
				c.stmt(x.Post)
			}
		})
	case *ast.RangeStmt:
		c.expr(x.X)
		c.nested(func() { c.stmts(x.Body.List) })
	case *ast.SwitchStmt:
		if x.Init != nil {
			c.stmt(x.Init)
		}
		c.expr(x.Tag)
		for _, cl := range x.Body.List {
			if cc, ok := cl.(*ast.CaseClause); ok {
				for _, e := range cc.List {
					c.expr(e)
				}
				c.nested(func() { c.stmts(cc.Body) })
			}
		}
	case *ast.TypeSwitchStmt:
		c.expr(x.Assign)
		for _, cl := range x.Body.List {
			if cc, ok := cl.(*ast.CaseClause); ok {
				c.nested(func() { c.stmts(cc.Body) })
			}
		}
	case *ast.ReturnStmt:
		for _, r := range x.Results {
			c.expr(r)
		}
	case *ast.DeferStmt:
		if _, _, ok := c.w.lockCall(x.Call); !ok {
			c.expr(x.Call)
		}
	case *ast.IncDecStmt:
		c.expr(x.X)
	case *ast.DeclStmt:
		c.expr(x.Decl)
	case *ast.LabeledStmt:
		c.stmt(x.Stmt)
	}
}

// commitShape scans one function of vfs/memfs.
func commitShape(w *walker, fd *ast.FuncDecl) {
	c := &commitScan{w: w, parents: map[string]bool{}, children: map[string]bool{}, relooked: map[string]bool{}, staleSeen: map[string]bool{}}
	ast.Inspect(fd.Body, func(n ast.Node) bool {
		as, ok := n.(*ast.AssignStmt)
		if !ok || len(as.Rhs) != 1 || len(as.Lhs) != 4 {
			return true
		}
		call, ok := as.Rhs[0].(*ast.CallExpr)
		if !ok {
			return true
		}
		sel, ok := call.Fun.(*ast.SelectorExpr)
		if !ok || sel.Sel.Name != "searchNode" {
			return true
		}
		pv, cv := "_", "_"
		if id, ok := as.Lhs[0].(*ast.Ident); ok {
			pv = id.Name
		}
		if id, ok := as.Lhs[1].(*ast.Ident); ok {
			cv = id.Name
		}
		if pv != "_" {
			c.parents[pv] = true
		}
		if cv != "_" {
			c.children[cv] = true
		}
		w.emit(fact{kind: "walk", line: fset.Position(as.Pos()).Line, field: cv, note: pv})
		return true
	})
	if len(c.parents) == 0 {
		return
	}
	c.stmts(fd.Body.List)
}

func endsWithReturn(l []ast.Stmt) bool {
	if len(l) == 0 {
		return false
	}
	_, ok := l[len(l)-1].(*ast.ReturnStmt)
	return ok
}

func splitRoot(e string) (string, string) {
	if i := strings.IndexAny(e, ".["); i >= 0 {
		return e[:i], e[i:]
	}
	return e, ""
}

func lstr(s string) string {
	return "\"" + strings.ReplaceAll(strings.ReplaceAll(s, "\\", "\\\\"), "\"", "\\\"") + "\""
}
func llist(xs []string) string {
	q := make([]string, len(xs))
	for i, x := range xs {
		q[i] = lstr(x)
	}
	return "[" + strings.Join(q, ", ") + "]"
}

func main() {
	if len(os.Args) < 3 {
		fmt.Fprintln(os.Stderr, "usage: lockx <repo> <out.lean>")
		os.Exit(2)
	}
	repo, out := os.Args[1], os.Args[2]
	pkgs := []struct{ dir, name string }{{"vfs/memfs", "memfs"}, {"vfs/orefafs", "orefafs"}, {"idm/memidm", "memidm"}}
	var facts []fact
	type fnInfo struct {
		pkg, name, recv string
		params          []string
		exported        bool
	}
	var fns []fnInfo
	for _, p := range pkgs {
		files, _ := filepath.Glob(filepath.Join(repo, p.dir, "*.go"))
		sort.Strings(files)
		var decls []*ast.FuncDecl
		funcs := map[string]bool{}
		imports := map[string]bool{}
		for _, fn := range files {
			if strings.HasSuffix(fn, "_test.go") || strings.HasSuffix(fn, "_verif.go") {
				continue
			}
			f, err := parser.ParseFile(fset, fn, nil, 0)
			if err != nil {
				fmt.Fprintln(os.Stderr, err)
				os.Exit(1)
			}
			for _, im := range f.Imports {
				nm := strings.Trim(im.Path.Value, "\"")
				if i := strings.LastIndex(nm, "/"); i >= 0 {
					nm = nm[i+1:]
				}
				if im.Name != nil {
					nm = im.Name.Name
				}
				imports[nm] = true
			}
			for _, d := range f.Decls {
				if fd, ok := d.(*ast.FuncDecl); ok && fd.Body != nil {
					if fd.Recv != nil && len(fd.Recv.List) > 0 {
						rt := strings.TrimPrefix(src(fd.Recv.List[0].Type), "*")
						if strings.HasSuffix(rt, "Info") || rt == "MemUser" || rt == "MemGroup" {
							continue // immutable value records
						}
					}
					decls = append(decls, fd)
					funcs[fd.Name.Name] = true
				}
			}
		}
		for _, fd := range decls {
			w := &walker{pkg: p.name, fn: fd.Name.Name, params: map[string]bool{}, alias: map[string]string{}, fresh: map[string]bool{}, funcs: funcs, facts: &facts, imports: imports}
			recvT := ""
			if fd.Recv != nil && len(fd.Recv.List) > 0 {
				recvT = strings.TrimPrefix(src(fd.Recv.List[0].Type), "*")
				if len(fd.Recv.List[0].Names) > 0 {
					w.recv = fd.Recv.List[0].Names[0].Name
				}
				w.fn = recvT + "." + fd.Name.Name
			}
			var ps []string
			for _, f := range fd.Type.Params.List {
				for _, n := range f.Names {
					w.params[n.Name] = true
					ps = append(ps, n.Name)
				}
			}
			fns = append(fns, fnInfo{p.name, w.fn, w.recv, ps, ast.IsExported(fd.Name.Name)})
			w.block(fd.Body.List, held{})
			if p.name == "memfs" && recvT == "MemFS" {
				commitShape(w, fd)
			}
		}
	}
	var b strings.Builder
	b.WriteString("import Avfs.Conc.Facts\n/- GENERATED by harness/cmd/lockx from /repo's working tree. Do not edit. -/\nnamespace Avfs.Generated\nopen Avfs.Conc\n\n")
	b.WriteString("def lockFns : List FnInfo := [\n")
	for i, f := range fns {
		sep := ","
		if i == len(fns)-1 {
			sep = ""
		}
		short := f.name
		if i := strings.LastIndex(short, "."); i >= 0 {
			short = short[i+1:]
		}
		fmt.Fprintf(&b, "  { pkg := %s, name := %s, short := %s, recv := %s, params := %s, exported := %v }%s\n", lstr(f.pkg), lstr(f.name), lstr(short), lstr(f.recv), llist(f.params), f.exported, sep)
	}
	b.WriteString("]\n\ndef lockFacts : List Fact := [\n")
	for i, f := range facts {
		sep := ","
		if i == len(facts)-1 {
			sep = ""
		}
		or, os_ := splitRoot(f.owner)
		var ar, as []string
		for _, a := range f.args {
			r, s2 := splitRoot(a)
			ar, as = append(ar, r), append(as, s2)
		}
		fmt.Fprintf(&b, "  { kind := %s, pkg := %s, fn := %s, line := %d, field := %s, write := %v, oroot := %s, orest := %s, okind := %s, callee := %s, aroots := %s, arests := %s, akinds := %s, held := %s, note := %s }%s\n",
			lstr(f.kind), lstr(f.pkg), lstr(f.fn), f.line, lstr(f.field), f.write, lstr(or), lstr(os_), lstr(f.okind), lstr(f.callee), llist(ar), llist(as), llist(f.akinds), llist(f.held), lstr(f.note), sep)
	}
	b.WriteString("]\n\nend Avfs.Generated\n")
	old, _ := os.ReadFile(out)
	if string(old) != b.String() {
		if err := os.WriteFile(out, []byte(b.String()), 0o644); err != nil {
			fmt.Fprintln(os.Stderr, err)
			os.Exit(1)
		}
	}
}
